---------------------------- MODULE DriveAlloc ----------------------------
(* Drive-number allocation of dfs as the manual (doc/dfs.1, --drive-first / --drive-physical)
   and property C16 state it.  An image with k surfaces is attached under one of two policies:
     FIRST    : its surfaces take the lowest free drive numbers, in order;
     PHYSICAL : its surfaces take n, n+2, n+4, ... for the lowest n such that all of these are
                free and the opposite side of n (n+2 for n mod 4 in {0,1}, n-2 otherwise) is not
                occupied ("behave like a BBC Micro does ... as if they were physical floppy disks").
   hist records the attach history so that no two paths are merged; every state TLC reaches is
   replayed against the real StorageConfiguration::connect_drives and the occupancy compared. *)
EXTENDS Naturals, Sequences, FiniteSets

CONSTANTS Kinds,      \* set of surface counts, e.g. {1,2,3,5}
          MaxImages,  \* bound on the number of attached images
          MaxDrive    \* drive numbers 0..MaxDrive are modelled (large enough for the bound)

VARIABLES occ,        \* occ[d] = <<image ordinal, surface index>> or <<0,0>> when free (ordinals from 1)
          hist        \* sequence of <<k, policy>>

Drives == 0..MaxDrive
Free(d) == occ[d] = <<0, 0>>
Opposite(d) == IF d % 4 \in {0, 1} THEN d + 2 ELSE d - 2

Init == /\ occ = [d \in Drives |-> <<0, 0>>]
        /\ hist = << >>

FreeSet == {d \in Drives : Free(d)}
\* rank of a free drive among the free drives (0 = lowest free drive number)
Rank(d) == Cardinality({e \in FreeSet : e < d})

AttachFirst(k) ==
  /\ Cardinality(FreeSet) >= k
  /\ LET img == Len(hist) + 1
     IN occ' = [d \in Drives |-> IF Free(d) /\ Rank(d) < k THEN <<img, Rank(d)>> ELSE occ[d]]
  /\ hist' = Append(hist, <<k, "F">>)

Fits(n, k) == /\ \A j \in 0..(k-1) : (n + 2*j) \in Drives /\ Free(n + 2*j)
              /\ (Opposite(n) \in Drives => Free(Opposite(n)))

AttachPhysical(k) ==
  /\ {x \in Drives : Fits(x, k)} # {}     \* (a set test, not \E: TLC would emit one duplicate successor per witness)
  /\ LET img == Len(hist) + 1
         n == CHOOSE x \in Drives : Fits(x, k) /\ \A y \in Drives : Fits(y, k) => x <= y
     IN occ' = [d \in Drives |-> IF \E j \in 0..(k-1) : n + 2*j = d
                                  THEN <<img, (d - n) \div 2>>
                                  ELSE occ[d]]
  /\ hist' = Append(hist, <<k, "P">>)

Next == /\ Len(hist) < MaxImages
        /\ \E k \in Kinds : AttachFirst(k) \/ AttachPhysical(k)

Spec == Init /\ [][Next]_<<occ, hist>>

-----------------------------------------------------------------------------
\* I1: every surface of every attached image has exactly one drive number
I1 == \A i \in 1..Len(hist) : \A s \in 0..(hist[i][1] - 1) :
        Cardinality({d \in Drives : occ[d] = <<i, s>>}) = 1
\* I3 (PHYSICAL): no surface of an image attached physically sits on the opposite side of a
\* drive held by an image that was attached EARLIER; a two-sided image is at n, n+2
I3 == \A i \in 1..Len(hist) : hist[i][2] = "P" =>
        /\ \A d \in Drives : (occ[d][1] = i /\ Opposite(d) \in Drives) =>
               (occ[Opposite(d)][1] = 0 \/ occ[Opposite(d)][1] >= i)
        /\ hist[i][1] = 2 => \E n \in Drives : occ[n] = <<i, 0>> /\ (n + 2) \in Drives /\ occ[n + 2] = <<i, 1>>
\* I4 (FIRST): the surfaces of an image attached with FIRST are in increasing drive order
I4 == \A i \in 1..Len(hist) : hist[i][2] = "F" =>
        \A d1, d2 \in Drives : (occ[d1][1] = i /\ occ[d2][1] = i /\ occ[d1][2] < occ[d2][2]) => d1 < d2
Inv == I1 /\ I3 /\ I4
=============================================================================
