"""C04 — sector-dump containers map (drive, track, sector) to the documented offset.
Every sector of the image file says where it came from (its first 8 bytes are its own file offset), so
the oracle for any read is simply offset(container, surface, track, sector).  Exhaustive over containers
x geometries x variants x every (track, sector) of every surface, truncation at every track boundary,
dump-sector argument boundaries, every MMB slot and every MMB status byte."""
import os, struct, hashlib
from lib import core, run, dfsrun, disc, render

VARIANTS = ['plain']
PID = 'C04'
BIN = 'plain'


def mkres():
    return {'n': 0, 'out': {}, 'viol': [], 'nt': [], 'case': None}


def bump(res, k, n=1):
    res['out'][k] = res['out'].get(k, 0) + n


_SALT = b''


def stamp(off):
    # bytes 0-7 are 0xEE: byte 5 (entry count field when taken as a catalogue sector) is not a multiple of 8,
    # so a stamped sector is never a valid catalogue; bytes 8-15 carry the file offset
    h = hashlib.blake2b(struct.pack('>Q', off) + _SALT, digest_size=30).digest()
    return b'\xEE' * 8 + struct.pack('>Q', off) + (h * 8)


def ref_offset(container, ntracks, spt, surface, t, s, slot=0):
    """the documented mapping"""
    if container in ('ssd', 'sdd'):
        return (surface * ntracks * spt + t * spt + s) * 256
    if container in ('dsd', 'ddd'):
        return ((t * 2 + surface) * spt + s) * 256
    if container == 'mmb':
        return 8192 + slot * 204800 + (t * 10 + s) * 256
    raise ValueError(container)


def surface_sectors(kind, ntracks, spt, label):
    """{lba: bytes} for the catalogue sectors of one surface + description of the data area"""
    n = ntracks * spt
    total = min(n, 1023)
    secs = {}
    if kind == 'opus':
        # one volume A from track 1 to the end (<= 1008 sectors described by the catalogue)
        voltotal = min(n - 18, 1008)
        s16 = bytearray(256)
        s16[0] = 0x20
        s16[1], s16[2], s16[3], s16[4] = (n >> 8) & 0xFF, n & 0xFF, 18, ntracks
        s16[8] = 1
        secs[16] = bytes(s16)
        secs[17] = bytes(256)
        for k in range(2, 16):
            secs[k] = bytes(256)
        e = disc.Entry(b'ALL', b'$', False, 0, 0, voltotal * 256, 0)
        s0, s1 = disc.catalogue(label, 1, 0, voltotal, [e])
        secs[0], secs[1] = s0, s1
        return secs, (18, voltotal, ':0A.$.ALL' if False else 'ALL')
    first = 4 if kind == 'watford' else 2
    e = disc.Entry(b'ALL', b'$', False, 0, 0, (total - first) * 256, first)
    s0, s1 = disc.catalogue(label, 1, 0, total, [e])
    secs[0], secs[1] = s0, s1
    if kind == 'watford':
        s2, s3 = disc.catalogue(b'', 1, 0, total, [], s0_head=b'\xAA' * 8)
        secs[2], secs[3] = s2, s3
    return secs, (first, total - first, 'ALL')


def build_file(case, path):
    """write the container file (sparse where possible); returns per-surface info"""
    cont, nt, spt, kind = case.get('container', 'mmb'), case.get('ntracks', 80), case.get('spt', 10), case.get('kind', 'acorn')
    nsurf = case.get('surfaces', 1)
    info = []
    with open(path, 'wb') as f:
        if cont == 'mmb':
            status = {int(k): v for k, v in case['status'].items()}
            f.write(disc.mmb_header(status))
            for slot in sorted(status):
                if not case.get('fill_slots', True) and status[slot] not in (0x00, 0x0F):
                    pass
                cat, (first, count, name) = surface_sectors('acorn', 80, 10, b'SLOT%d' % slot)
                want = case.get('slot_sectors')
                for lba in range(800):
                    if want is not None and lba not in want and lba not in cat:
                        continue
                    off = ref_offset('mmb', 80, 10, 0, lba // 10, lba % 10, slot)
                    f.seek(off)
                    f.write(cat[lba] if lba in cat else stamp(off))
                info.append({'slot': slot, 'first': first, 'count': count, 'name': name})
            f.truncate(8192 + 511 * 204800 if case.get('full_size') else max(f.tell(), 8192 + (max(status) + 1) * 204800))
            return info
        for surf in range(nsurf):
            cat, (first, count, name) = surface_sectors(kind, nt, spt, b'SURF%d' % surf)
            for lba in range(nt * spt):
                off = ref_offset(cont, nt, spt, surf, lba // spt, lba % spt)
                f.seek(off)
                f.write(cat[lba] if lba in cat else stamp(off))
            info.append({'surface': surf, 'first': first, 'count': count, 'name': name})
        if case.get('trunc_tracks') is not None:
            # cut the file after this many tracks' worth of data (file order)
            f.truncate(case['trunc_tracks'] * spt * 256)
        if case.get('trunc_bytes') is not None:
            # cut inside a sector: the last sector is only partly stored
            f.truncate(case['trunc_bytes'])
    return info


def check_stream(res, sig, note, out, cont, nt, spt, surf, first_lba, slot=0, limit=None):
    """out = bytes of consecutive sectors starting at surface LBA first_lba"""
    nsec = len(out) // 256
    bad = 0
    for i in range(nsec):
        lba = first_lba + i
        want = stamp(ref_offset(cont, nt, spt, surf, lba // spt, lba % spt, slot))
        got = out[i * 256:(i + 1) * 256]
        if got != want:
            src = struct.unpack('>Q', got[8:16])[0] if got[:8] == b'\xEE' * 8 else -1
            bad += 1
            if bad == 1:
                res['viol'].append((sig + ':wrong-offset', '%s: surface %d track %d sector %d should come from file offset %d but '
                                    'the data read is from offset %d' % (note, surf, lba // spt, lba % spt,
                                                                         ref_offset(cont, nt, spt, surf, lba // spt, lba % spt, slot), src)))
    bump(res, 'sector-ok', nsec - bad)
    if bad:
        bump(res, 'sector-wrong', bad)
    return nsec


def w_container(case):
    res = mkres()
    try:
        cont, nt, spt, kind = case['container'], case['ntracks'], case['spt'], case.get('kind', 'acorn')
        nsurf = case.get('surfaces', 1)
        d = run.fresh_dir('c04')
        fname = 'img.' + cont
        info = build_file(case, os.path.join(d, fname))
        sig = 'C04:%s:%s:%dsurf' % (cont, kind, nsurf)
        note = '%s %s %dx%d' % (cont, kind, nt, spt)
        trunc = case.get('trunc_tracks')
        cut_at = trunc * spt * 256 if trunc is not None else None
        if case.get('trunc_bytes') is not None:
            trunc, cut_at = case['trunc_bytes'], case['trunc_bytes']
            sig += ':cut-inside-sector'
        for i in info:
            surf = i['surface']
            drive = 2 * surf
            vol = 'A' if kind == 'opus' else ''
            # every sector through a file read (CachedDevice + FileView + body walk)
            r = dfsrun.dfs(BIN, ['--file', fname, 'type', '--binary', ':%d%s.$.%s' % (drive, vol, i['name'])], d)
            res['n'] += 1
            if trunc is None:
                if r.status() != 'exit0':
                    bump(res, 'read-failed')
                    res['viol'].append(('%s:surface%d:unreadable' % (sig, surf), '%s: type of the all-sectors file on drive %d failed: %r' % (
                        note, drive, r.err[:160])))
                else:
                    n = check_stream(res, sig, note, r.out, cont, nt, spt, surf, i['first'])
                    if n != i['count']:
                        res['viol'].append((sig + ':short', '%s: %d sectors delivered, %d expected' % (note, n, i['count'])))
            else:
                # the file is cut: the read must fail (never deliver other data) unless everything needed is present
                last_needed = ref_offset(cont, nt, spt, surf, (i['first'] + i['count'] - 1) // spt, (i['first'] + i['count'] - 1) % spt)
                complete = last_needed + 256 <= cut_at
                if r.status() == 'exit0':
                    check_stream(res, sig + ':truncated', note, r.out, cont, nt, spt, surf, i['first'])
                    if not complete:
                        res['viol'].append((sig + ':truncated:read-beyond-eof-succeeded', '%s cut after %s: whole-file read succeeded' % (note, ('%d tracks' % trunc) if cut_at != trunc else ('%d bytes' % cut_at))))
                elif r.sig:
                    res['viol'].append((sig + ':truncated:signal', r.status()))
                else:
                    bump(res, 'truncated-read-failed')
            # dump-sector: every sector (thorough) / first two and last two tracks + argument boundaries (quick)
            tracks = range(nt) if case.get('every_sector') else sorted(set([0, 1, nt // 2, nt - 2, nt - 1]) & set(range(nt)))
            if spt == 16 and cont == 'sdd':
                # a non-interleaved 16-sector image is byte-for-byte also an 18-sector image (which dfs documents it
                # prefers); only the geometry-independent LBA mapping (the file read above) is decidable
                tracks = []
            for t in tracks:
                for s in range(spt):
                    lba = t * spt + s
                    rr = dfsrun.dfs(BIN, ['--file', fname, 'dump-sector', str(drive), str(t), str(s)], d)
                    res['n'] += 1
                    off = ref_offset(cont, nt, spt, surf, t, s)
                    beyond = trunc is not None and off + 256 > cut_at
                    if rr.status() == 'exit0':
                        try:
                            got, _ = render.parse_dump(rr.out)
                        except render.ParseError as ex:
                            res['viol'].append((sig + ':dump-sector:parse', str(ex)))
                            continue
                        iscat = (lba < 2) or (kind == 'watford' and lba < 4) or (kind == 'opus' and lba < 18)
                        if beyond:
                            res['viol'].append((sig + ':dump-sector:read-beyond-eof-succeeded', '%s track %d sector %d' % (note, t, s)))
                        elif not iscat:
                            check_stream(res, sig + ':dump-sector', note, got, cont, nt, spt, surf, lba)
                    else:
                        if not beyond and trunc is None:
                            res['viol'].append((sig + ':dump-sector:failed', '%s drive %d track %d sector %d: %r' % (note, drive, t, s, rr.err[:100])))
                        elif rr.sig or not rr.err.strip():
                            res['viol'].append((sig + ':dump-sector:unclean-failure', rr.status()))
                        else:
                            bump(res, 'beyond-eof-failed' if beyond else 'truncated-image-rejected')
            # argument boundaries
            for (t, s, ok) in ((nt - 1, spt - 1, True), (nt, 0, False), (0, spt, False), (nt - 1, spt, False), (-1, 0, False),
                               (1, -1, False), (1, -spt, False), (2, -spt - 1, False), (-1, spt, False), (nt, -1, False)):
                if spt == 16 and cont == 'sdd':
                    break
                rr = dfsrun.dfs(BIN, ['--file', fname, 'dump-sector', str(drive), str(t), str(s)], d)
                res['n'] += 1
                if (rr.status() == 'exit0') != (ok and trunc is None) and trunc is None:
                    res['viol'].append((sig + ':dump-sector:boundary', '%s dump-sector %d %d %d -> %s' % (note, drive, t, s, rr.status())))
                elif rr.status() != 'exit0' and not rr.err.strip():
                    res['viol'].append((sig + ':dump-sector:no-diagnostic', ''))
                else:
                    bump(res, 'boundary-ok')
        # surfaces of the other drive numbers must not exist
        r = dfsrun.dfs(BIN, ['--file', fname, 'dump-sector', str(2 * nsurf), '0', '0'], d)
        res['n'] += 1
        if r.status() == 'exit0':
            res['viol'].append((sig + ':phantom-surface', '%s: drive %d readable' % (note, 2 * nsurf)))
        res['nt'].append((cont, kind, nt, spt, nsurf, trunc, case.get('every_sector')))
        if res['viol']:
            res['case'] = case
    except Exception:
        import traceback
        res['viol'].append(('HARNESS', traceback.format_exc()))
        res['case'] = case
    return res


def w_multi(case):
    """several image files attached in one invocation (default physical allocation: the first at 0(,2), the second at 1(,3),
    a third one-sided one at 4): every sector of every surface of every image by a whole-surface read, dump-sector on boundary
    tracks.  Each image's sectors are stamped with their offset AND an image-specific salt."""
    global _SALT
    res = mkres()
    try:
        d = run.fresh_dir('c04m')
        imgs = case['images']
        argv = []
        drives = []
        base = [0, 1, 4]
        for k, im in enumerate(imgs):
            _SALT = b'img%d' % k
            fname = 'img%d.%s' % (k, im['container'])
            info = build_file(im, os.path.join(d, fname))
            argv += ['--file', fname]
            drives.append([(base[k] + 2 * i['surface'], i) for i in info])
        sig = 'C04:multi:' + '+'.join('%s%d' % (im['container'], im['spt']) for im in imgs)
        for k, im in enumerate(imgs):
            _SALT = b'img%d' % k
            cont, nt, spt = im['container'], im['ntracks'], im['spt']
            note = 'image %d of %s (%s %dx%d)' % (k, [x['container'] + str(x['spt']) for x in imgs], cont, nt, spt)
            for drive, i in drives[k]:
                surf = i['surface']
                r = dfsrun.dfs(BIN, argv + ['type', '--binary', ':%d.$.%s' % (drive, i['name'])], d)
                res['n'] += 1
                if r.status() != 'exit0':
                    res['viol'].append(('%s:unreadable' % sig, '%s: type of the all-sectors file on drive %d failed: %r' % (note, drive, r.err[:160])))
                    continue
                n = check_stream(res, sig, note, r.out, cont, nt, spt, surf, i['first'])
                if n != i['count']:
                    res['viol'].append((sig + ':short', '%s: %d sectors delivered, %d expected' % (note, n, i['count'])))
                for t in sorted(set([0, 1, nt // 2, nt - 1])):
                    for sct in sorted(set([0, 1, spt // 2, spt - 1])):
                        if t * spt + sct < 2:
                            continue
                        rr = dfsrun.dfs(BIN, argv + ['dump-sector', str(drive), str(t), str(sct)], d)
                        res['n'] += 1
                        if rr.status() != 'exit0':
                            res['viol'].append((sig + ':dump-sector:failed', '%s drive %d track %d sector %d: %r' % (note, drive, t, sct, rr.err[:100])))
                            continue
                        try:
                            got, _ = render.parse_dump(rr.out)
                        except render.ParseError as ex:
                            res['viol'].append((sig + ':dump-sector:parse', str(ex)))
                            continue
                        check_stream(res, sig + ':dump-sector', note, got, cont, nt, spt, surf, t * spt + sct)
        res['nt'].append(('multi', repr(imgs)))
        if res['viol']:
            res['case'] = case
    except Exception:
        import traceback
        res['viol'].append(('HARNESS', traceback.format_exc()))
        res['case'] = case
    finally:
        _SALT = b''
    return res


def w_mmb(case):
    res = mkres()
    try:
        d = run.fresh_dir('c04')
        info = build_file(case, os.path.join(d, 'img.mmb'))
        status = {int(k): v for k, v in case['status'].items()}
        sig = 'C04:mmb'
        for i in info:
            slot = i['slot']
            if case.get('only') and not (case['only'][0] <= slot < case['only'][1]):
                continue
            drive = 2 * slot
            present = status[slot] in (0x00, 0x0F)
            if case.get('mode') == 'status':
                for cmd in (['cat', str(drive)], ['dump-sector', str(drive), '0', '5'], ['dump-sector', str(drive), '0', '0'],
                            ['dump-sector', str(drive), '79', '9'], ['type', '--binary', ':%d.$.ALL' % drive]):
                    r = dfsrun.dfs(BIN, ['--file', 'img.mmb'] + cmd, d)
                    res['n'] += 1
                    if present:
                        if r.status() != 'exit0':
                            res['viol'].append((sig + ':status:present-slot-unreadable', 'status 0x%02X slot %d %r: %r' % (status[slot], slot, cmd, r.err[:100])))
                        else:
                            bump(res, 'present-ok')
                            if cmd[0] == 'type':
                                # a neighbour's status byte must not move this slot: the bytes come from 8192 + slot*204800
                                for lba in case.get('slot_sectors', []):
                                    k = lba - i['first']
                                    want = stamp(ref_offset('mmb', 80, 10, 0, lba // 10, lba % 10, slot))
                                    got = r.out[k * 256:(k + 1) * 256]
                                    if got != want:
                                        src = struct.unpack('>Q', got[8:16])[0] if got[:8] == b'\xEE' * 8 else -1
                                        nb = status.get((slot - 1) % 511)
                                        res['viol'].append((sig + ':status:wrong-offset:neighbour-%s' % ('present' if nb in (0, 15) else 'absent' if nb is not None else 'none'),
                                                            'mmb slot %d (statuses %s) sector %d comes from file offset %d' % (slot, {q: hex(v) for q, v in status.items()}, lba, src)))
                                    else:
                                        bump(res, 'sector-ok')
                    else:
                        if r.status() == 'exit0' or r.out:
                            res['viol'].append((sig + ':status:unformatted-slot-readable', 'slot %d with status byte 0x%02X: %r gave %s and %d bytes' % (
                                slot, status[slot], cmd, r.status(), len(r.out))))
                        elif not r.err.strip() or r.sig:
                            res['viol'].append((sig + ':status:no-diagnostic', 'status 0x%02X' % status[slot]))
                        else:
                            bump(res, 'unformatted-reported')
                res['nt'].append(('status', slot, status[slot]))
                continue
            if not present:
                continue
            if case.get('mode') == 'full':
                r = dfsrun.dfs(BIN, ['--file', 'img.mmb', 'type', '--binary', ':%d.$.ALL' % drive], d)
                res['n'] += 1
                if r.status() != 'exit0':
                    res['viol'].append((sig + ':slot-unreadable', 'slot %d: %r' % (slot, r.err[:100])))
                else:
                    n = check_stream(res, sig, 'mmb slot %d' % slot, r.out, 'mmb', 80, 10, 0, i['first'], slot)
                    if n != i['count']:
                        res['viol'].append((sig + ':short', 'slot %d' % slot))
            for lba in case.get('probe', []):
                r = dfsrun.dfs(BIN, ['--file', 'img.mmb', 'dump-sector', str(drive), str(lba // 10), str(lba % 10)], d)
                res['n'] += 1
                if r.status() != 'exit0':
                    res['viol'].append((sig + ':dump-sector:failed', 'slot %d lba %d: %r' % (slot, lba, r.err[:100])))
                    continue
                got, _ = render.parse_dump(r.out)
                check_stream(res, sig + ':dump-sector', 'mmb slot %d' % slot, got, 'mmb', 80, 10, 0, lba, slot)
            res['nt'].append(('slot', slot, case.get('mode')))
        if res['viol']:
            res['case'] = case
    except Exception:
        import traceback
        res['viol'].append(('HARNESS', traceback.format_exc()))
        res['case'] = case
    return res


def worker(case):
    return {'container': w_container, 'mmb': w_mmb, 'multi': w_multi}[case['w']](case)


def geometries(cont):
    if cont in ('ssd', 'dsd'):
        return [(35, 10), (40, 10), (80, 10)]
    return [(35, 16), (40, 16), (80, 16), (35, 18), (40, 18), (80, 18)]


def fam_containers(tier):
    """container x geometry x catalogue variant x every surface: every sector via a whole-surface file read; dump-sector on boundary tracks (quick) / every sector (thorough)"""
    for cont in ('ssd', 'sdd', 'dsd', 'ddd'):
        for nt, spt in geometries(cont):
            kinds = ['acorn', 'watford'] + (['opus'] if cont == 'sdd' and spt == 18 else [])
            for kind in kinds:
                if kind == 'watford' and spt == 16 and cont == 'ddd':
                    continue        # ambiguous image, see DESIGN.md section 8
                yield {'w': 'container', 'container': cont, 'ntracks': nt, 'spt': spt, 'kind': kind,
                       'surfaces': 2 if cont in ('dsd', 'ddd') else 1, 'every_sector': tier == 'thorough'}


def fam_twosided(tier):
    """two-sided NON-interleaved .ssd/.sdd: side 1 follows side 0 in the file"""
    # (16 sectors/track is left out: such an image is equally a truncated one-sided 18-sector image, which dfs
    # documents it prefers - undecidable from the bytes, see DESIGN.md section 8)
    for cont, geos in (('ssd', [(35, 10), (40, 10), (80, 10)]), ('sdd', [(35, 18), (40, 18), (80, 18)])):
        for nt, spt in geos:
            yield {'w': 'container', 'container': cont, 'ntracks': nt, 'spt': spt, 'kind': 'acorn', 'surfaces': 2}


MULTI = [('ssd', 80, 10, 1), ('ssd', 40, 10, 1), ('dsd', 80, 10, 2), ('dsd', 40, 10, 2), ('ddd', 80, 18, 2), ('ddd', 40, 18, 2), ('ddd', 80, 16, 2),
         ('sdd', 80, 18, 1), ('sdd', 40, 18, 1)]


def fam_multi(tier):
    """every ordered pair of sector-dump images (ssd/dsd/sdd/ddd, 40/80 tracks, 10/16/18 sectors) attached in ONE invocation, and triples of
    interleaved images followed by an .ssd: per-image state (stride, track length, side offset) must not leak from one image to the next"""
    def im(x):
        return {'container': x[0], 'ntracks': x[1], 'spt': x[2], 'kind': 'acorn', 'surfaces': x[3]}
    for a in MULTI:
        for b in MULTI:
            yield {'w': 'multi', 'images': [im(a), im(b)]}
    inter = [x for x in MULTI if x[3] == 2]
    for a in inter:
        for b in inter:
            if a != b:
                yield {'w': 'multi', 'images': [im(a), im(b), im(MULTI[0])]}


def fam_trunc(tier):
    """file cut at every track boundary: a read past the end of the file must fail, never return other data"""
    for cont, nt, spt in (('ssd', 40, 10), ('dsd', 40, 10), ('sdd', 40, 18), ('ddd', 40, 18), ('ssd', 80, 10)):
        nsurf = 2 if cont[0] == 'd' else 1
        tr = range(1, nt * nsurf + 1) if tier == 'thorough' else sorted(set([1, 2, 3, nt // 2, nt - 1, nt, nt + 1, nt * nsurf - 1, nt * nsurf]))
        for k in tr:
            if k > nt * nsurf:
                continue
            yield {'w': 'container', 'container': cont, 'ntracks': nt, 'spt': spt, 'kind': 'acorn', 'surfaces': nsurf,
                   'trunc_tracks': k}


def fam_partial(tier):
    """file cut INSIDE a sector (1, 100, 255 bytes of it stored): last sector of the last track, a sector in the middle of the last track, side 1 of interleaved files; that sector must not be served (dump-sector and file reads)"""
    for cont, nt, spt in (('ssd', 40, 10), ('dsd', 40, 10), ('sdd', 40, 18), ('ddd', 80, 18), ('ssd', 80, 10)):
        nsurf = 2 if cont[0] == 'd' else 1
        for surf in range(nsurf):
            for (t, sct) in ((nt - 1, spt - 1), (nt - 1, spt // 2), (nt - 1, 0), (nt - 2, spt - 1)):
                for k in (1, 100, 255):
                    yield {'w': 'container', 'container': cont, 'ntracks': nt, 'spt': spt, 'kind': 'acorn', 'surfaces': nsurf,
                           'trunc_bytes': ref_offset(cont, nt, spt, surf, t, sct) + k}


def fam_mmb(tier):
    """MMB: every slot 0..510 (first/last sector of each; every sector of slots 0,1,255,509,510 (quick) / of every slot (thorough)); all 256 status bytes on slots 0,1,510"""
    full = [0, 1, 255, 509, 510]
    for slot in (range(511) if tier == 'thorough' else full):
        yield {'w': 'mmb', 'status': {str(slot): 0x0F if slot % 2 else 0x00}, 'mode': 'full', 'probe': [2, 799], 'full_size': slot == 510}
    # all slots present together: probe first and last data sector of every slot
    allst = {str(s): (0x0F if s % 3 else 0x00) for s in range(511)}
    chunk = 64
    for lo in range(0, 511, chunk):
        yield {'w': 'mmb', 'status': allst, 'mode': 'probe', 'probe': [2, 799], 'slot_sectors': [2, 799], 'only': [lo, lo + chunk]}
    for slot in (0, 1, 510):
        for lo in range(0, 256, 32):
            for v in range(lo, lo + 32):
                yield {'w': 'mmb', 'status': {str(slot): v, str((slot + 1) % 511): 0x0F}, 'mode': 'status', 'slot_sectors': [2, 5]}


FAMILIES = [('K-containers-geometries', fam_containers), ('T-truncated-files', fam_trunc), ('P-partly-stored-last-sector', fam_partial), ('M-mmb-slots-status', fam_mmb),
            ('N-two-sided-non-interleaved', fam_twosided), ('U-several-images-one-invocation', fam_multi)]


def main(tier, seed):
    ctx = core.Ctx(PID, tier, 'exploration', seed, quick_s=240, thorough_s=2700)
    ctx.rule = ('Image files are written so that the sector stored at file offset o begins with o; every sector of every '
                'surface is read back (whole-surface file read through type --binary, dump-sector per sector) and must carry '
                'the offset the documentation assigns to (surface, track, sector): contiguous per side, track-interleaved for '
                '.dsd/.ddd, 8192+slot*204800 for MMB. Non-trivial = distinct (container, variant, geometry, surfaces, '
                'truncation) and (slot, status) cases; sector counts are in the family tallies.')
    ctx.assumptions = ['sparse files on tmpfs for the 104 MB MMB archive']
    ctx.explore(FAMILIES, worker, tier, chunksize=1)
    ctx.samples = [{'family': 'K', 'container': 'ddd', 'ntracks': 80, 'spt': 18, 'surface': 1, 'track': 79, 'sector': 17,
                    'expected_offset': ref_offset('ddd', 80, 18, 1, 79, 17)},
                   {'family': 'M', 'slot': 510, 'expected_offset_of_sector_0': ref_offset('mmb', 80, 10, 0, 0, 0, 510)}]
    return ctx.finish()


def replay(rec):
    res = worker(rec['case'])
    for sig, text in res['viol']:
        print('replayed violation:', sig, text[:300])
    if any(s == rec['signature'] for s, _ in res['viol']):
        print('VIOLATION property=%s replay=(replayed)' % PID)
        return 1
    print('no violation on replay')
    return 0
