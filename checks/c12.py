"""C12 — dfs writes only where it was told to and never alters an image.
Exhaustive over hostile catalogue names (all strings <=3 over a path-metacharacter alphabet, hand-picked
7-character names) x every directory byte 0x01-0x7F x current directory x destination spelling x every
command; oracle = full tree snapshot of a sandbox directory before/after each run."""
import os, hashlib, itertools, stat
from lib import core, run, dfsrun, disc, images

VARIANTS = ['plain']
PID = 'C12'
BIN = 'plain'


def mkres():
    return {'n': 0, 'out': {}, 'viol': [], 'nt': [], 'case': None}


def bump(res, k):
    res['out'][k] = res['out'].get(k, 0) + 1


def snapshot(root):
    snap = {}
    for dp, dns, fns in os.walk(root):
        for n in dns + fns:
            p = os.path.join(dp, n)
            st = os.lstat(p)
            rel = os.path.relpath(p, root)
            if stat.S_ISREG(st.st_mode):
                snap[rel] = ('f', st.st_size, hashlib.sha1(open(p, 'rb').read()).hexdigest(), st.st_mtime_ns)
            elif stat.S_ISDIR(st.st_mode):
                snap[rel] = ('d',)
            else:
                snap[rel] = ('o', st.st_mode)
    return snap


def make_sandbox(imgname, imgdata):
    root = run.fresh_dir('c12')
    for p in ('img', 'dest', 'dest/a', 'dest2', 'dest2/sub', 'other'):
        os.makedirs(os.path.join(root, p))
    dfsrun.write(root, 'canary', b'canary')
    dfsrun.write(root, 'other/x', b'precious')
    dfsrun.write(os.path.join(root, 'dest', 'a'), 'keep', b'keep')
    dfsrun.write(os.path.join(root, 'img'), imgname, imgdata)
    return root


def hostile_surface(entries, tracks=40, spt=10):
    """entries: [(name bytes <=7, dir byte, length)]"""
    es = []
    pos = 2
    for nm, d, ln in entries:
        es.append(disc.Entry(nm, bytes([d & 0x7F]), bool(d & 0x80), 0x1900, 0x8023, ln, pos))   # bit 7 of the directory byte = lock flag
        pos += max(1, (ln + 255) // 256)
    es.reverse()
    return disc.acorn_surface(disc.Volume(es, b'HOSTILE'), tracks * spt, b'h')


def w_extract(case):
    """extract-files / extract-unused on a hostile catalogue; check every path created"""
    res = mkres()
    try:
        entries = [(bytes.fromhex(n), d, ln) for n, d, ln in case['entries']]
        img = hostile_surface(entries)
        data = images.gz(img) if case.get('gz') else img
        iname = 'h.ssd' + ('.gz' if case.get('gz') else '')
        root = make_sandbox(iname, data)
        dest = case['dest'].replace('@ROOT@', root)
        if case.get('deep'):
            # a destination whose path is longer than NAME_MAX / a typical fixed buffer although every component is legal
            deep = os.path.join(*[c * case['deep'][1] for c in 'xyzw'[:case['deep'][0]]])
            os.makedirs(os.path.join(root, 'dest', deep))
            dest = os.path.join(dest, deep)
        before = snapshot(root)
        argv = ['--file', 'img/' + iname, '--dir', case['cur'], case['cmd'], dest]
        r = dfsrun.dfs(BIN, argv, root)
        res['n'] += 1
        after = snapshot(root)
        destrel = 'dest' if not case.get('deep') else os.path.normpath(os.path.join('dest', deep))
        bad = None
        if r.sig or r.timeout:
            bad = ('crash', r.status())
        for p in sorted(set(after) | set(before)):
            if before.get(p) == after.get(p):
                continue
            if p.startswith('img/') or p == 'img':
                bad = ('image-modified', p)
                break
            parent = os.path.dirname(p)
            if p in before:
                bad = ('existing-path-changed', p)
                break
            if parent != destrel:
                bad = ('created-outside-destination', p)
                break
        name_desc = ','.join('%s/%02x' % (n.hex(), d) for n, d, _ in entries[:1])
        if bad:
            bump(res, bad[0])
            cls = 'slash' if b'/' in entries[0][0] or entries[0][1] == 0x2F else 'other'
            res['viol'].append(('C12:%s:%s:%s' % (case['cmd'], bad[0], cls),
                                'catalogue entry name=%r dir=0x%02X, --dir %s, %s %s: %s %s (exit %s)' % (
                                    entries[0][0], entries[0][1], case['cur'], case['cmd'], case['dest'], bad[0], bad[1], r.status())))
        else:
            bump(res, 'ok-exit%d' % r.exit)
        res['nt'].append((case['cmd'], case['entries'][0][0], case['entries'][0][1], case['cur'], case['dest'], case.get('gz')))
        if res['viol']:
            res['case'] = case
    except Exception:
        import traceback
        res['viol'].append(('HARNESS', traceback.format_exc()))
        res['case'] = case
    return res


READONLY = [['cat'], ['info', '#.*'], ['type', 'HELLO'], ['type', '--binary', 'HELLO'], ['list', '!BOOT'],
            ['dump', 'W.WORLD'], ['dump-sector', '0', '0', '0'], ['free'], ['space'], ['sector-map'], ['show-titles'],
            ['help'], ['--verbose', 'cat'], ['--show-config', 'cat'], ['type', 'NOSUCH'], ['cat', '3'], ['nosuchcmd'],
            ['extract-files'], ['extract-unused'], ['extract-files', 'nosuchdir'], ['extract-unused', 'canary'],
            ['info', '../canary'], ['type', '../canary'], ['dump', '/etc/passwd']]


def w_readonly(case):
    res = mkres()
    try:
        v = images.valid_images(small=True)
        data = v[case['ext']]
        if case.get('gz'):
            data = images.gz(data)
        iname = 'v.' + case['ext'] + ('.gz' if case.get('gz') else '')
        root = make_sandbox(iname, data)
        before = snapshot(root)
        for cmd in READONLY:
            argv = (['--file', 'img/' + iname] + cmd) if cmd[0] != '--verbose' and cmd[0] != '--show-config' else \
                [cmd[0], '--file', 'img/' + iname] + cmd[1:]
            r = dfsrun.dfs(BIN, argv, root)
            res['n'] += 1
            after = snapshot(root)
            if after != before:
                diff = sorted(p for p in set(after) | set(before) if after.get(p) != before.get(p))
                bump(res, 'tree-changed')
                res['viol'].append(('C12:readonly:%s:tree-changed' % cmd[0], '%s %r changed %s' % (iname, cmd, diff[:3])))
                before = after
            elif r.sig:
                res['viol'].append(('C12:readonly:%s:signal' % cmd[0], r.status()))
            else:
                bump(res, 'unchanged')
            res['nt'].append((iname, tuple(cmd)))
        # extraction proper: image untouched, files only in dest
        for cmd in ('extract-files', 'extract-unused'):
            for dest in ('dest', 'dest/', './dest', root + '/dest', 'dest2/sub', 'dest2/sub/'):
                before = snapshot(root)
                r = dfsrun.dfs(BIN, ['--file', 'img/' + iname, cmd, dest], root)
                res['n'] += 1
                after = snapshot(root)
                want_parent = os.path.normpath(os.path.relpath(dest, root) if os.path.isabs(dest) else dest)
                bad = None
                for p in sorted(set(after) | set(before)):
                    if before.get(p) == after.get(p):
                        continue
                    if p.startswith('img'):
                        bad = 'image-modified:' + p
                    elif os.path.dirname(p) != want_parent:
                        bad = 'outside:' + p
                    elif p in before and cmd == 'extract-files' and False:
                        bad = 'overwrote:' + p
                if bad:
                    res['viol'].append(('C12:valid-image:%s:%s' % (cmd, bad.split(':')[0]), '%s %s %s: %s' % (iname, cmd, dest, bad)))
                elif r.exit != 0:
                    res['viol'].append(('C12:valid-image:%s:failed' % cmd, '%s %s: %s %r' % (iname, dest, r.status(), r.err[:100])))
                else:
                    bump(res, 'extracted-inside')
        if res['viol']:
            res['case'] = case
    except Exception:
        import traceback
        res['viol'].append(('HARNESS', traceback.format_exc()))
        res['case'] = case
    return res


def worker(case):
    return {'extract': w_extract, 'readonly': w_readonly}[case['w']](case)


ALPHA = [0x2F, 0x2E, 0x2D, 0x61, 0x01, 0x7E]
HAND = [b'../../x', b'/etc/x', b'..', b'.', b'-rf', b'a/../b', b'a/a', b'a/keep', b'../cana', b'..//x', b'\\..\\x', b'a/.',
        b'~', b'.inf', b'x.inf', b'\x7f', b'*', b'a b', b'../othe', b'./a/a']


def fam_names(tier):
    """all names of length <=3 over {'/', '.', '-', 'a', 0x01, '~'} + hand-picked 7-character names x --dir same/different x destination spellings"""
    names = []
    for k in (1, 2, 3):
        for t in itertools.product(ALPHA, repeat=k):
            names.append(bytes(t))
    names += HAND
    # the catalogue stores 8-bit bytes; the tool masks bit 7 when it builds host names, so every hostile name
    # also comes with bit 7 set on all bytes, on the '/' only, and on everything but the '/'
    hi = []
    for nm in names:
        if b'/' in nm or b'.' in nm:
            hi.append(bytes(b | 0x80 for b in nm))
            hi.append(bytes((b | 0x80) if b == 0x2F else b for b in nm))
            hi.append(bytes(b if b == 0x2F else (b | 0x80) for b in nm))
    names += sorted(set(hi) - set(names))
    dests = ['dest', 'dest/', './dest', '@ROOT@/dest']
    for nm in names:
        for cur in ('$', 'X'):
            for dest in dests:
                yield {'w': 'extract', 'cmd': 'extract-files', 'entries': [[nm.hex(), 0x24, 300], [b'OK'.hex(), 0x24, 10]],
                       'cur': cur, 'dest': dest}
        if True:
            yield {'w': 'extract', 'cmd': 'extract-unused', 'entries': [[nm.hex(), 0x24, 300]], 'cur': '$', 'dest': 'dest'}
            yield {'w': 'extract', 'cmd': 'extract-files', 'entries': [[nm.hex(), 0x24, 300]], 'cur': '$', 'dest': 'dest', 'gz': True}


def fam_longdest(tier):
    """destination directories whose path is 100..700 bytes long (components of 60/90/200 characters, 1-4 levels), relative and absolute"""
    for levels, width in ((1, 60), (2, 60), (3, 90), (4, 60), (2, 200), (3, 200), (1, 250), (3, 83), (3, 84), (3, 85)):
        for cmd in ('extract-files', 'extract-unused'):
            for dest in ('dest', '@ROOT@/dest', 'dest/'):
                yield {'w': 'extract', 'cmd': cmd, 'entries': [[b'OK'.hex(), 0x24, 300], [b'B'.hex(), 0x24, 10]], 'cur': '$', 'dest': dest,
                       'deep': [levels, width]}


def fam_dirs(tier):
    """directory byte every value 0x01-0x7F x names {x, ., /x, ./x, .., a/a} x --dir {$, same byte when printable}"""
    for d in list(range(1, 128)) + [0xAF, 0xAE]:
        for nm in (b'x', b'.', b'/x', b'./x', b'..', b'a/a', b'./cana'):
            for cur in ('$', chr(d & 0x7F) if 0x21 <= (d & 0x7F) < 0x7F else 'Q'):
                yield {'w': 'extract', 'cmd': 'extract-files', 'entries': [[nm.hex(), d, 100]], 'cur': cur,
                       'dest': 'dest' if d % 2 else 'dest/'}


def fam_readonly(tier):
    """every command (read-only, failing, extraction) on a valid image of every extension, plain and .gz"""
    for e in images.EXTS:
        for z in (False, True):
            yield {'w': 'readonly', 'ext': e, 'gz': z}


FAMILIES = [('R-all-commands-valid-images', fam_readonly), ('L-long-destination-paths', fam_longdest), ('D-directory-bytes', fam_dirs), ('N-hostile-names', fam_names)]


def main(tier, seed):
    ctx = core.Ctx(PID, tier, 'exploration', seed, quick_s=200, thorough_s=1800)
    ctx.rule = ('Each case builds an image whose catalogue holds one hostile entry, runs one dfs command in a sandbox '
                'directory (image in img/, destination dest/, pre-existing dest/a/, a canary file and a sibling '
                'directory) and compares a full tree snapshot (type, size, sha1, mtime) before and after. Created paths '
                'must have the destination as parent; nothing else may change; image files stay byte-identical. '
                'Non-trivial = distinct (command, name bytes, directory byte, --dir, destination spelling).')
    ctx.assumptions = ['tmpfile() used for gzip lives outside the sandbox and is unlinked by libc; not observed']
    ctx.explore(FAMILIES, worker, tier, chunksize=4)
    ctx.samples = [{'family': 'N', 'name_hex': b'../x'.hex(), 'dir': '$', 'cmd': 'extract-files dest'},
                   {'family': 'D', 'name': './x', 'dir_byte': '0x2E', 'cur': '$'}]
    return ctx.finish()


def replay(rec):
    res = worker(rec['case'])
    for sig, text in res['viol']:
        print('replayed violation:', sig, text[:300])
    if any(s == rec['signature'] for s, _ in res['viol']):
        print('VIOLATION property=%s replay=(replayed)' % PID)
        return 1
    print('no violation on replay')
    return 0
