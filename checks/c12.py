"""C12 — dfs writes only where it was told to and never alters an image.
Exhaustive over hostile catalogue names (all strings <=3 over a path-metacharacter alphabet, hand-picked
7-character names) x every directory byte 0x01-0x7F x current directory x destination spelling x every
command; oracle = full tree snapshot of a sandbox directory before/after each run."""
import os, hashlib, itertools, stat
from lib import core, run, dfsrun, disc, images

VARIANTS = ['plain']
PID = 'C12'
BIN = 'plain'


def mkres():
    return {'n': 0, 'out': {}, 'viol': [], 'nt': [], 'case': None}


def bump(res, k):
    res['out'][k] = res['out'].get(k, 0) + 1


def snapshot(root):
    snap = {}
    for dp, dns, fns in os.walk(root):
        for n in dns + fns:
            p = os.path.join(dp, n)
            st = os.lstat(p)
            rel = os.path.relpath(p, root)
            if stat.S_ISREG(st.st_mode):
                snap[rel] = ('f', st.st_size, hashlib.sha1(open(p, 'rb').read()).hexdigest(), st.st_mtime_ns)
            elif stat.S_ISDIR(st.st_mode):
                snap[rel] = ('d',)
            else:
                snap[rel] = ('o', st.st_mode)
    return snap


def make_sandbox(imgname, imgdata):
    root = run.fresh_dir('c12')
    for p in ('img', 'dest', 'dest/a', 'dest2', 'dest2/sub', 'other'):
        os.makedirs(os.path.join(root, p))
    dfsrun.write(root, 'canary', b'canary')
    dfsrun.write(root, 'other/x', b'precious')
    dfsrun.write(os.path.join(root, 'dest', 'a'), 'keep', b'keep')
    dfsrun.write(os.path.join(root, 'img'), imgname, imgdata)
    return root


def hostile_surface(entries, tracks=40, spt=10):
    """entries: [(name bytes <=7, dir byte, length)]"""
    es = []
    pos = 2
    for nm, d, ln in entries:
        es.append(disc.Entry(nm, bytes([d & 0x7F]), bool(d & 0x80), 0x1900, 0x8023, ln, pos))   # bit 7 of the directory byte = lock flag
        pos += max(1, (ln + 255) // 256)
    es.reverse()
    return disc.acorn_surface(disc.Volume(es, b'HOSTILE'), tracks * spt, b'h')


def w_extract(case):
    """extract-files / extract-unused on a hostile catalogue; check every path created"""
    res = mkres()
    try:
        entries = [(bytes.fromhex(n), d, ln) for n, d, ln in case['entries']]
        img = hostile_surface(entries)
        data = images.gz(img) if case.get('gz') else img
        iname = 'h.ssd' + ('.gz' if case.get('gz') else '')
        root = make_sandbox(iname, data)
        dest = case['dest'].replace('@ROOT@', root)
        if case.get('deep'):
            # a destination whose path is longer than NAME_MAX / a typical fixed buffer although every component is legal
            deep = os.path.join(*[c * case['deep'][1] for c in 'xyzw'[:case['deep'][0]]])
            os.makedirs(os.path.join(root, 'dest', deep))
            dest = os.path.join(dest, deep)
        before = snapshot(root)
        argv = ['--file', 'img/' + iname, '--dir', case['cur'], case['cmd'], dest]
        r = dfsrun.dfs(BIN, argv, root)
        res['n'] += 1
        after = snapshot(root)
        destrel = 'dest' if not case.get('deep') else os.path.normpath(os.path.join('dest', deep))
        bad = None
        if r.sig or r.timeout:
            bad = ('crash', r.status())
        for p in sorted(set(after) | set(before)):
            if before.get(p) == after.get(p):
                continue
            if p.startswith('img/') or p == 'img':
                bad = ('image-modified', p)
                break
            parent = os.path.dirname(p)
            if p in before:
                bad = ('existing-path-changed', p)
                break
            if parent != destrel:
                bad = ('created-outside-destination', p)
                break
        name_desc = ','.join('%s/%02x' % (n.hex(), d) for n, d, _ in entries[:1])
        if bad:
            bump(res, bad[0])
            cls = 'slash' if b'/' in entries[0][0] or entries[0][1] == 0x2F else 'other'
            res['viol'].append(('C12:%s:%s:%s' % (case['cmd'], bad[0], cls),
                                'catalogue entry name=%r dir=0x%02X, --dir %s, %s %s: %s %s (exit %s)' % (
                                    entries[0][0], entries[0][1], case['cur'], case['cmd'], case['dest'], bad[0], bad[1], r.status())))
        else:
            bump(res, 'ok-exit%d' % r.exit)
        res['nt'].append((case['cmd'], case['entries'][0][0], case['entries'][0][1], case['cur'], case['dest'], case.get('gz')))
        if res['viol']:
            res['case'] = case
    except Exception:
        import traceback
        res['viol'].append(('HARNESS', traceback.format_exc()))
        res['case'] = case
    return res


READONLY = [['cat'], ['info', '#.*'], ['type', 'HELLO'], ['type', '--binary', 'HELLO'], ['list', '!BOOT'],
            ['dump', 'W.WORLD'], ['dump-sector', '0', '0', '0'], ['free'], ['space'], ['sector-map'], ['show-titles'],
            ['help'], ['--verbose', 'cat'], ['--show-config', 'cat'], ['type', 'NOSUCH'], ['cat', '3'], ['nosuchcmd'],
            ['extract-files'], ['extract-unused'], ['extract-files', 'nosuchdir'], ['extract-unused', 'canary'],
            ['info', '../canary'], ['type', '../canary'], ['dump', '/etc/passwd']]


def w_readonly(case):
    res = mkres()
    try:
        v = images.valid_images(small=True)
        data = v[case['ext']]
        if case.get('gz'):
            data = images.gz(data)
        iname = 'v.' + case['ext'] + ('.gz' if case.get('gz') else '')
        root = make_sandbox(iname, data)
        before = snapshot(root)
        for cmd in READONLY:
            argv = (['--file', 'img/' + iname] + cmd) if cmd[0] != '--verbose' and cmd[0] != '--show-config' else \
                [cmd[0], '--file', 'img/' + iname] + cmd[1:]
            r = dfsrun.dfs(BIN, argv, root)
            res['n'] += 1
            after = snapshot(root)
            if after != before:
                diff = sorted(p for p in set(after) | set(before) if after.get(p) != before.get(p))
                bump(res, 'tree-changed')
                res['viol'].append(('C12:readonly:%s:tree-changed' % cmd[0], '%s %r changed %s' % (iname, cmd, diff[:3])))
                before = after
            elif r.sig:
                res['viol'].append(('C12:readonly:%s:signal' % cmd[0], r.status()))
            else:
                bump(res, 'unchanged')
            res['nt'].append((iname, tuple(cmd)))
        # extraction proper: image untouched, files only in dest
        for cmd in ('extract-files', 'extract-unused'):
            for dest in ('dest', 'dest/', './dest', root + '/dest', 'dest2/sub', 'dest2/sub/'):
                before = snapshot(root)
                r = dfsrun.dfs(BIN, ['--file', 'img/' + iname, cmd, dest], root)
                res['n'] += 1
                after = snapshot(root)
                want_parent = os.path.normpath(os.path.relpath(dest, root) if os.path.isabs(dest) else dest)
                bad = None
                for p in sorted(set(after) | set(before)):
                    if before.get(p) == after.get(p):
                        continue
                    if p.startswith('img'):
                        bad = 'image-modified:' + p
                    elif os.path.dirname(p) != want_parent:
                        bad = 'outside:' + p
                    elif p in before and cmd == 'extract-files' and False:
                        bad = 'overwrote:' + p
                if bad:
                    res['viol'].append(('C12:valid-image:%s:%s' % (cmd, bad.split(':')[0]), '%s %s %s: %s' % (iname, cmd, dest, bad)))
                elif r.exit != 0:
                    res['viol'].append(('C12:valid-image:%s:failed' % cmd, '%s %s: %s %r' % (iname, dest, r.status(), r.err[:100])))
                else:
                    bump(res, 'extracted-inside')
        if res['viol']:
            res['case'] = case
    except Exception:
        import traceback
        res['viol'].append(('HARNESS', traceback.format_exc()))
        res['case'] = case
    return res


def self_image(ext, entries):
    """an image file of type ext whose first surface carries `entries` [(name, dirbyte, length)]"""
    from lib import flux
    if ext in ('hfe', 'mfm'):
        spt = 10 if ext == 'hfe' else 18
        es, pos = [], 2
        for nm, d, ln in entries:
            es.append(disc.Entry(nm, bytes([d]), False, 0x1900, 0x8023, ln, pos))
            pos += max(1, (ln + 255) // 256)
        es.reverse()
        surf = disc.acorn_surface(disc.Volume(es, b'SELF', 0, 0, 2 * spt), 2 * spt, b's')
        return flux.hfe_from_surfaces([surf], 2, 10, 'FM', 1) if ext == 'hfe' else flux.hxcmfm_from_surfaces([surf], 2, 18)
    spt = 18 if ext in ('sdd', 'ddd') else 10
    surf = hostile_surface(entries, 40, spt)
    if ext in ('ssd', 'sdd'):
        return surf
    if ext in ('dsd', 'ddd'):
        other = hostile_surface([(b'SIDE2', 0x24, 10)], 40, spt)
        return disc.interleave(surf, other, spt)
    if ext == 'mmb':
        s80 = hostile_surface(entries, 80, 10)
        return disc.mmb_header({0: 0x0F}) + s80.ljust(disc.MMB_DISC, b'\0')
    raise ValueError(ext)


def w_self(case):
    """the catalogue holds a file whose host name equals the name of an attached image and the destination is the
    image's own directory (by several spellings): no pre-existing file - least of all an image - may change"""
    res = mkres()
    try:
        ext, z = case['ext'], case['gz']
        iname = 'x.' + ext + ('.gz' if z else '')
        if case['mode'] == 'cur':                     # name lies in the current directory: host name = NAME
            entry, cur = (iname.encode(), 0x24, 300), '$'
        else:                                          # host name = D.NAME with D = 'x'
            entry, cur = (iname[2:].encode(), ord('x'), 300), '$'
        if len(entry[0]) > 7:
            return res
        victim = case['victim']                        # 'self' or 'other' (a second attached image carries the colliding name)
        entries = [entry, (b'OK', 0x24, 10)]
        data = self_image(ext, entries if victim == 'self' else [(b'PLAIN', 0x24, 10)])
        root = make_sandbox(iname, images.gz(data) if z else data)
        argv = ['--file', 'img/' + iname]
        if victim == 'other':
            dfsrun.write(os.path.join(root, 'img'), 'reader.ssd', hostile_surface(entries))
            argv = ['--file', 'img/reader.ssd', '--file', 'img/' + iname]
        os.symlink('img', os.path.join(root, 'lnk'))
        os.link(os.path.join(root, 'img', iname), os.path.join(root, 'dest2', iname))     # the image under a second name
        dest = {'plain': 'img', 'slash': 'img/', 'dot': './img', 'abs': root + '/img', 'symlink': 'lnk', 'dotdot': 'dest/../img',
                'hardlink': 'dest2'}[case['dest']]
        before = snapshot(root)
        r = dfsrun.dfs(BIN, argv + ['--dir', cur, 'extract-files', dest], root)
        res['n'] += 1
        after = snapshot(root)
        changed = sorted(p for p in before if before.get(p) != after.get(p))
        created = sorted(p for p in after if p not in before)
        destrel = {'hardlink': 'dest2'}.get(case['dest'], 'img')
        if r.sig or r.timeout:
            res['viol'].append(('C12:self:crash', r.status()))
        elif changed:
            kind = 'image-modified' if any(c.endswith(iname) or c.endswith('reader.ssd') for c in changed) else 'existing-path-changed'
            bump(res, kind)
            res['viol'].append(('C12:self:%s:%s' % (kind, victim), 'image %s holds a file extracted as %s; extract-files %s changed %s (exit %s)'
                                % (iname, iname, dest, changed[:3], r.status())))
        elif any(os.path.dirname(c) != destrel for c in created):
            res['viol'].append(('C12:self:created-outside-destination', str(created[:3])))
        elif r.exit != 0 and not r.err.strip():
            res['viol'].append(('C12:self:silent-failure', r.status()))
        else:
            bump(res, 'refused' if r.exit else 'no-collision')
        res['nt'].append((ext, z, case['mode'], victim, case['dest']))
        if res['viol']:
            res['case'] = case
    except Exception:
        import traceback
        res['viol'].append(('HARNESS', traceback.format_exc()))
        res['case'] = case
    return res


BADIMG = ['missing.ssd', 'missing.ssd.gz', 'missing.hfe.gz', 'dir.ssd', 'dir.ssd.gz', 'empty.ssd', 'empty.ssd.gz', 'garbage.ssd.gz',
          'trunc.ssd.gz', 'trunc.mmb.gz', 'noext', 'only.gz', 'valid.xyz.gz', 'valid.ssd.gz', 'valid.hfe.gz', 'bad.hfe.gz', 'bad.mfm.gz']
TMPCMDS = [['cat'], ['info', '*'], ['free'], ['type', 'HELLO'], ['extract-files', 'dest'], ['extract-unused', 'dest'], ['show-titles'],
           ['sector-map'], ['--show-config', 'cat']]


def w_tmp(case):
    """failing and succeeding image opens with TMPDIR inside the sandbox: nothing may be left behind anywhere"""
    res = mkres()
    try:
        v = images.valid_images(small=True)
        root = make_sandbox('valid.ssd', v['ssd'])
        img = os.path.join(root, 'img')
        os.makedirs(os.path.join(root, 'tmp'))
        for d in ('dir.ssd', 'dir.ssd.gz'):
            os.makedirs(os.path.join(img, d))
        dfsrun.write(img, 'empty.ssd', b'')
        dfsrun.write(img, 'empty.ssd.gz', b'')
        dfsrun.write(img, 'garbage.ssd.gz', b'this is not gzip' * 40)
        dfsrun.write(img, 'trunc.ssd.gz', images.gz(v['ssd'])[:-9])
        dfsrun.write(img, 'trunc.mmb.gz', images.gz(v['mmb'])[:300])
        dfsrun.write(img, 'noext', v['ssd'])
        dfsrun.write(img, 'only.gz', images.gz(v['ssd']))
        dfsrun.write(img, 'valid.xyz.gz', images.gz(v['ssd']))
        dfsrun.write(img, 'valid.ssd.gz', images.gz(v['ssd']))
        dfsrun.write(img, 'valid.hfe.gz', images.gz(v['hfe']))
        dfsrun.write(img, 'bad.hfe.gz', images.gz(v['hfe'][:700]))
        dfsrun.write(img, 'bad.mfm.gz', images.gz(v['mfm'][:100]))
        env = {'TMPDIR': os.path.join(root, 'tmp')}
        for first in ([], ['--file', 'img/valid.ssd.gz'], ['--file', 'img/valid.ssd']):
            for cmd in TMPCMDS:
                before = snapshot(root)
                argv = first + ['--file', 'img/' + case['img']] + cmd
                if cmd[0] == '--show-config':
                    argv = ['--show-config'] + first + ['--file', 'img/' + case['img']] + cmd[1:]
                r = dfsrun.dfs(BIN, argv, root, env=env)
                res['n'] += 1
                after = snapshot(root)
                diff = sorted(p for p in set(after) | set(before) if after.get(p) != before.get(p))
                stray = [p for p in diff if not (cmd[0].startswith('extract') and os.path.dirname(p) == 'dest' and p not in before)]
                if r.sig or r.timeout:
                    res['viol'].append(('C12:tmp:crash', '%r: %s' % (argv, r.status())))
                elif stray:
                    where = 'TMPDIR' if stray[0].startswith('tmp') else 'elsewhere'
                    bump(res, 'left-behind')
                    res['viol'].append(('C12:tmp:file-left-behind:%s:%s' % (where, 'failed-open' if r.exit else 'success'),
                                        'dfs %s (exit %s) left %s' % (' '.join(argv), r.status(), stray[:3])))
                else:
                    bump(res, 'clean-exit%d' % r.exit)
                for p in diff:                      # reset dest for the next command
                    if p not in before and os.path.isfile(os.path.join(root, p)):
                        os.unlink(os.path.join(root, p))
        res['nt'].append(('tmp', case['img']))
        if res['viol']:
            res['case'] = case
    except Exception:
        import traceback
        res['viol'].append(('HARNESS', traceback.format_exc()))
        res['case'] = case
    return res


def worker(case):
    return {'extract': w_extract, 'readonly': w_readonly, 'self': w_self, 'tmp': w_tmp}[case['w']](case)


ALPHA = [0x2F, 0x2E, 0x2D, 0x61, 0x01, 0x7E]
HAND = [b'../../x', b'/etc/x', b'..', b'.', b'-rf', b'a/../b', b'a/a', b'a/keep', b'../cana', b'..//x', b'\\..\\x', b'a/.',
        b'~', b'.inf', b'x.inf', b'\x7f', b'*', b'a b', b'../othe', b'./a/a']


def fam_names(tier):
    """all names of length <=3 over {'/', '.', '-', 'a', 0x01, '~'} + hand-picked 7-character names x --dir same/different x destination spellings"""
    names = []
    for k in ((1, 2, 3) if tier == 'quick' else (1, 2, 3, 4)):
        for t in itertools.product(ALPHA, repeat=k):
            names.append(bytes(t))
    if tier == 'thorough':
        for k in (1, 2, 3):
            for t in itertools.product(ALPHA + [0x5C, 0x20, 0x7F, 0x2A, 0x0A], repeat=k):
                if bytes(t) not in names:
                    names.append(bytes(t))
        names = list(dict.fromkeys(names))
    names += HAND
    # the catalogue stores 8-bit bytes; the tool masks bit 7 when it builds host names, so every hostile name
    # also comes with bit 7 set on all bytes, on the '/' only, and on everything but the '/'
    hi = []
    for nm in names:
        if b'/' in nm or b'.' in nm:
            hi.append(bytes(b | 0x80 for b in nm))
            hi.append(bytes((b | 0x80) if b == 0x2F else b for b in nm))
            hi.append(bytes(b if b == 0x2F else (b | 0x80) for b in nm))
    names += sorted(set(hi) - set(names))
    dests = ['dest', 'dest/', './dest', '@ROOT@/dest']
    for nm in names:
        for cur in ('$', 'X'):
            for dest in dests:
                yield {'w': 'extract', 'cmd': 'extract-files', 'entries': [[nm.hex(), 0x24, 300], [b'OK'.hex(), 0x24, 10]],
                       'cur': cur, 'dest': dest}
        if True:
            yield {'w': 'extract', 'cmd': 'extract-unused', 'entries': [[nm.hex(), 0x24, 300]], 'cur': '$', 'dest': 'dest'}
            yield {'w': 'extract', 'cmd': 'extract-files', 'entries': [[nm.hex(), 0x24, 300]], 'cur': '$', 'dest': 'dest', 'gz': True}


def fam_longdest(tier):
    """destination directories whose path is 100..700 bytes long (components of 60/90/200 characters, 1-4 levels), relative and absolute"""
    for levels, width in ((1, 60), (2, 60), (3, 90), (4, 60), (2, 200), (3, 200), (1, 250), (3, 83), (3, 84), (3, 85)):
        for cmd in ('extract-files', 'extract-unused'):
            for dest in ('dest', '@ROOT@/dest', 'dest/'):
                yield {'w': 'extract', 'cmd': cmd, 'entries': [[b'OK'.hex(), 0x24, 300], [b'B'.hex(), 0x24, 10]], 'cur': '$', 'dest': dest,
                       'deep': [levels, width]}


def fam_dirs(tier):
    """directory byte every value 0x01-0x7F x names {x, ., /x, ./x, .., a/a} x --dir {$, same byte when printable}"""
    for d in list(range(1, 128)) + [0xAF, 0xAE]:
        for nm in ((b'x', b'.', b'/x', b'./x', b'..', b'a/a', b'./cana') if tier == 'quick' else
                   (b'x', b'.', b'/x', b'./x', b'..', b'a/a', b'./cana', b'../x', b'/', b'//', b'.inf', b'a', b'-', b'x.ssd', b'..a', b'a..', b'/a/')):
            for cur in ('$', chr(d & 0x7F) if 0x21 <= (d & 0x7F) < 0x7F else 'Q'):
                yield {'w': 'extract', 'cmd': 'extract-files', 'entries': [[nm.hex(), d, 100]], 'cur': cur,
                       'dest': 'dest' if d % 2 else 'dest/'}


def fam_readonly(tier):
    """every command (read-only, failing, extraction) on a valid image of every extension, plain and .gz"""
    for e in images.EXTS:
        for z in (False, True):
            yield {'w': 'readonly', 'ext': e, 'gz': z}


def fam_self(tier):
    """catalogue entry whose host name equals an attached image's file name (every extension, plain/.gz, current-directory and D.-prefixed spelling), destination = the image's directory by 7 spellings (incl. symlink and hard link); victim = the image read or a second attached image"""
    for ext in images.EXTS:
        for z in (False, True):
            for mode in ('cur', 'prefixed'):
                for victim in ('self', 'other'):
                    for dest in ('plain', 'slash', 'dot', 'abs', 'symlink', 'dotdot', 'hardlink'):
                        yield {'w': 'self', 'ext': ext, 'gz': z, 'mode': mode, 'victim': victim, 'dest': dest}


def fam_tmp(tier):
    """17 image arguments that cannot be opened or are corrupt (missing, directory, empty, garbage/truncated .gz, bad extension) and valid ones x 9 commands x {alone, after a valid .gz image, after a valid plain image}, TMPDIR inside the sandbox: whole tree compared"""
    for i in BADIMG:
        yield {'w': 'tmp', 'img': i}


FAMILIES = [('S-image-named-like-a-catalogued-file', fam_self), ('T-temporary-files-and-failed-opens', fam_tmp), ('R-all-commands-valid-images', fam_readonly), ('L-long-destination-paths', fam_longdest), ('D-directory-bytes', fam_dirs), ('N-hostile-names', fam_names)]


def main(tier, seed):
    ctx = core.Ctx(PID, tier, 'exploration', seed, quick_s=200, thorough_s=1800)
    ctx.rule = ('Each case builds an image whose catalogue holds one hostile entry, runs one dfs command in a sandbox '
                'directory (image in img/, destination dest/, pre-existing dest/a/, a canary file and a sibling '
                'directory) and compares a full tree snapshot (type, size, sha1, mtime) before and after. Created paths '
                'must have the destination as parent; nothing else may change; image files stay byte-identical. '
                'Non-trivial = distinct (command, name bytes, directory byte, --dir, destination spelling).')
    ctx.assumptions = ['tmpfile() used for gzip lives outside the sandbox and is unlinked by libc; not observed']
    ctx.explore(FAMILIES, worker, tier, chunksize=4)
    ctx.samples = [{'family': 'N', 'name_hex': b'../x'.hex(), 'dir': '$', 'cmd': 'extract-files dest'},
                   {'family': 'D', 'name': './x', 'dir_byte': '0x2E', 'cur': '$'}]
    return ctx.finish()


def replay(rec):
    res = worker(rec['case'])
    for sig, text in res['viol']:
        print('replayed violation:', sig, text[:300])
    if any(s == rec['signature'] for s, _ in res['viol']):
        print('VIOLATION property=%s replay=(replayed)' % PID)
        return 1
    print('no violation on replay')
    return 0
