"""C18 — diagnostic and presentation options never change the data shown.
Differential exploration on the ASan build: every image (valid of every container incl. flux, and a hostile
set) x every command x {--verbose before/after --file, --show-config} x --ui {none, acorn, watford, opus}
x option order; `cat` on a pseudo-terminal for a set of COLUMNS values; every run executed twice."""
import os, pty, itertools, subprocess, select
from lib import core, run, dfsrun, build, images, disc, flux, render

VARIANTS = ['san']
PID = 'C18'
BIN = 'san'

CMDS = [['cat'], ['info', '#.*'], ['type', 'HELLO'], ['type', '--binary', 'HELLO'], ['list', '!BOOT'], ['dump', 'W.WORLD'],
        ['dump-sector', '0', '0', '1'], ['free'], ['space'], ['sector-map'], ['show-titles'], ['help'], ['cat', '2'],
        ['type', 'NOSUCH'], ['info', ':2.#.*'], ['extract-files', 'out'], ['extract-unused', 'out'], ['nosuchcmd'], ['dump-sector', '9', '0', '0'],
        # a selection made before a presentation option must survive it (--ui is also tried AFTER these)
        ['--dir', 'W', '--drive', '2', 'cat'], ['--dir', 'W', '--drive', '0', 'info', '#.*'], ['--dir', 'W', '--drive', '2', 'extract-files', 'out'],
        ['--dir', 'W', '--drive', '0', 'cat'],
        # ... including an Opus volume letter in the drive selection
        ['--dir', '$', '--drive', '0B', 'cat'], ['--dir', '$', '--drive', '0B', 'info', '#.*'], ['--dir', '$', '--drive', '0B', 'type', '--binary', 'BFILE'],
        ['--dir', '$', '--drive', '0A', 'info', '#.*']]


def mkres():
    return {'n': 0, 'out': {}, 'viol': [], 'nt': [], 'case': None}


def bump(res, k, n=1):
    res['out'][k] = res['out'].get(k, 0) + n


_IM = None


def image_set():
    global _IM
    if _IM is not None:
        return _IM
    v = images.valid_images(small=True)
    im = {'v.' + e: v[e] for e in images.EXTS}
    w, _, _ = images.small_surface('watford', 40, 10, tag='W')
    im['w.ssd'] = w[:16 * 256]
    o, _, _ = images.opus_surface(40)
    im['o.sdd'] = o[:60 * 256]
    s0, _, _ = images.small_surface('acorn', 2, 10, total=20)
    s1, _, _ = images.small_surface('acorn', 2, 10, total=20, tag='Q', title='SIDE1')
    im['two.hfe'] = flux.hfe_from_surfaces([s0, s1], 2, 10, 'FM', 1)
    sm, _, _ = images.small_surface('acorn', 2, 18, total=36)
    im['v3.hfe'] = flux.hfe_from_surfaces([sm], 2, 18, 'MFM', 3)
    im['z.ssd.gz'] = images.gz(v['ssd'])
    im['z.hfe.gz'] = images.gz(v['hfe'])
    # hostile set
    im['h_trunc.ssd'] = v['ssd'][:300]
    im['h_trunc.hfe'] = v['hfe'][:700]
    im['h_trunc.mfm'] = v['mfm'][:30]
    b = bytearray(v['ssd']); b[256 + 5] = 0xFF; im['h_count.ssd'] = bytes(b)
    b = bytearray(v['hfe']); b[1024 + 2000] ^= 0xFF; im['h_flux.hfe'] = bytes(b)
    b = bytearray(v['mfm']); b[600] ^= 0x10; im['h_flux.mfm'] = bytes(b)
    from checks import c06
    for cont, ext in (('hfe-fm', 'hfe'), ('hfe-mfm', 'hfe'), ('mfm', 'mfm')):
        for how in ('data-crc', 'id-crc', 'data-mark', 'deleted-bad-crc'):
            spt = 10 if cont == 'hfe-fm' else 18
            data, _ = c06.build_damaged(cont, 2, spt, {(1, 3)} if how != 'data-mark' else {(1, spt - 1)}, how)
            im['h_%s_%s.%s' % (cont.replace('-', ''), how.replace('-', ''), ext)] = data
    # HFE v3 streams with SKIPBITS / RAND opcodes: no semantic oracle is needed for a differential check
    sf, _, _ = images.small_surface('acorn', 2, 10, total=20)
    trs = flux.disc_to_tracks(sf, 2, 10, 0, 'FM')
    streams = [flux.pack_lsb_first(flux.fm_to_hfe_cells(b)) for b, _, _ in trs]
    rb = flux.revbits
    for nm, pos, op in (('skip4mid', 700, [0xF3, 4]), ('skip1end', len(streams[0]) - 40, [0xF3, 1]), ('skip7start', 8, [0xF3, 7]),
                        ('skip0', 900, [0xF3, 0]), ('skip9', 900, [0xF3, 9]), ('rand', 1200, [0xF4, 0x55]), ('badop', 1300, [0xF7])):
        s0 = streams[0][:pos] + bytes(rb(x) for x in op) + streams[0][pos:]
        # a stale copy of sector 0 after the opcode makes "what is decoded after it" visible
        im['h_v3%s.hfe' % nm] = flux.hfe_image([[s0 + streams[0][:1400]] + streams[1:]], 'FM', 3)
    # control characters in names and title (cat keeps a column counter that understands TAB, CR and LF)
    ents = [disc.Entry(b'D\tE', b'Q', False, 0, 0, 10, 9), disc.Entry(b'A\tB', b'$', True, 0, 0, 10, 8), disc.Entry(b'YAK', b'Q', False, 0, 0, 10, 7),
            disc.Entry(b'\tX', b'$', False, 0, 0, 10, 6), disc.Entry(b'CR\rX', b'$', False, 0, 0, 10, 5), disc.Entry(b'LF\nX', b'R', False, 0, 0, 10, 4),
            disc.Entry(b'BS\x08', b'$', False, 0, 0, 10, 3), disc.Entry(b'PLAIN', b'$', False, 0, 0, 10, 2)]
    im['ctl.ssd'] = disc.acorn_surface(disc.Volume(ents, b'TI\tTLE', 3, 2), 400, b'c')[:12 * 256]
    # identification near-misses (the recogniser's reject branches carry verbose-only explanations): every incomplete Opus
    # table variant, partly consistent tables, Watford marker imitations - all valid Acorn discs
    from checks import c13
    seen = set()
    for c in list(c13.fam_opus_imitation('quick')) + list(c13.fam_opus_partial('quick'))[::17] + list(c13.fam_marker_imitation('quick'))[254:258]:
        key = c['sig'] + ('cut' if c.get('cut') else '')
        if key in seen and 'partial' not in key and 'beyond' not in key:
            continue
        seen.add(key)
        name, data, _ = c13.build(c)
        im['n_%02d.%s' % (len([k for k in im if k.startswith('n_')]), c['ext'])] = data
    im['h_bad.ssd.gz'] = images.gz(v['ssd'])[:-5]
    b = bytearray(v['mmb']); b[16 + 15] = 0x55; im['h_status.mmb'] = bytes(b)
    im['h_empty.dsd'] = b''
    _IM = im
    return im


def run_variant(d, fname, cmd, opts_before, opts_after, ui, env=None, ui_late=False):
    od = os.path.join(d, 'out')
    if os.path.exists(od):
        for x in os.listdir(od):
            os.unlink(os.path.join(od, x))
    else:
        os.makedirs(od)
    argv = list(opts_before) + (['--ui', ui] if ui else []) + ['--file', fname] + list(opts_after) + cmd
    if ui_late:
        argv = list(opts_before) + ['--file', fname] + list(opts_after) + cmd[:4] + ['--ui', ui] + cmd[4:]
    r = dfsrun.dfs(BIN, argv, d, env=env, timeout=30)
    tree = dfsrun.read_tree(od) if any(c.startswith('extract') for c in cmd) else None
    return r, tree


def cat_data(out):
    try:
        c = render.parse_cat(out)
    except render.ParseError:
        return ('unparsed', out)
    return (c['title'], c['cycle'], c['option'], c['density'], sorted((d or b'', n, lk) for d, n, lk in c['files']))


def w_options(case):
    res = mkres()
    try:
        d = run.fresh_dir('c18')
        fname = case['image']
        dfsrun.write(d, fname, image_set()[fname])
        hostile = fname.startswith('h_')
        for cmd in case['cmds']:
            sel = cmd[0] == '--dir'
            verb = cmd[4] if sel else cmd[0]
            base, btree = run_variant(d, fname, cmd, [], [], None)
            base2, _ = run_variant(d, fname, cmd, [], [], None)
            res['n'] += 2
            sig = 'C18:%s' % ('hostile' if hostile else 'valid')
            if (base.status(), base.out) != (base2.status(), base2.out):
                res['viol'].append((sig + ':not-repeatable', '%s %r: two identical runs differ' % (fname, cmd)))
            from lib import mcb
            k, fr = mcb.san_kind(base.err)
            if base.sig or (k and k.split(':')[0] in ('asan', 'ubsan')):
                res['viol'].append((sig + ':crash:%s:%s' % (k, fr), '%s %r' % (fname, cmd)))
                continue
            combos = [(['--verbose'], []), ([], ['--verbose']), (['--show-config'], []), ([], ['--show-config']),
                      (['--verbose', '--show-config'], []), (['--show-config'], ['--verbose'])]
            for before, after in combos:
                r, tree = run_variant(d, fname, cmd, before, after, None)
                res['n'] += 1
                k, fr = mcb.san_kind(r.err)
                if r.sig or (k and k.split(':')[0] in ('asan', 'ubsan')):
                    res['viol'].append((sig + ':crash-with-diagnostic-option:%s:%s' % (k, fr), '%s %r %s/%s: %s' % (fname, cmd, before, after, r.err[-300:])))
                elif (r.status(), r.out, tree) != (base.status(), base.out, btree):
                    what = 'exit' if r.status() != base.status() else ('stdout' if r.out != base.out else 'files')
                    opt = 'verbose' if '--verbose' in before + after else 'show-config'
                    bump(res, 'differs')
                    res['viol'].append(('%s:%s-changes-%s:%s' % (sig, opt, what, verb), '%s: %r with %s before / %s after --file: %s/%dB vs plain %s/%dB' % (
                        fname, cmd, before, after, r.status(), len(r.out), base.status(), len(base.out))))
                else:
                    bump(res, 'same')
            for ui, late in [(u, False) for u in ('acorn', 'watford', 'opus', 'Acorn', 'Watford', 'Opus')] + \
                    ([(u, True) for u in ('acorn', 'watford', 'opus')] if sel else []):
                r, tree = run_variant(d, fname, cmd, [], [], ui, ui_late=late)
                res['n'] += 1
                if verb == 'cat' and r.status() == 'exit0' and base.status() == 'exit0':
                    if cat_data(base.out)[0] == 'unparsed':
                        # names with control characters: the layout cannot be parsed back; only the differential
                        # checks (verbose/show-config above, build configurations in C19) use this image
                        bump(res, 'cat-unparseable-skipped')
                    elif cat_data(r.out) != cat_data(base.out):
                        res['viol'].append((sig + ':ui-changes-cat-data' + (':after-selection' if late else ''), '%s --ui %s: %r vs %r' % (fname, ui, cat_data(r.out)[:4], cat_data(base.out)[:4])))
                    else:
                        bump(res, 'cat-same-data')
                elif (r.status(), r.out, tree) != (base.status(), base.out, btree):
                    if verb == 'cat' and r.status() == base.status():
                        bump(res, 'same')
                        continue
                    res['viol'].append(('%s:ui-changes-%s%s' % (sig, verb, ':after-selection' if late else ''), '%s --ui %s %r: %s/%dB vs %s/%dB' % (
                        fname, ui, cmd, r.status(), len(r.out), base.status(), len(base.out))))
                else:
                    bump(res, 'same')
            res['nt'].append((fname, tuple(cmd)))
        if res['viol']:
            res['case'] = case
    except Exception:
        import traceback
        res['viol'].append(('HARNESS', traceback.format_exc()))
        res['case'] = case
    return res


def run_on_pty(argv, cwd, env):
    m, s = pty.openpty()
    e = dict(run.BASE_ENV)
    e.update(env)
    for k in [k for k, v in e.items() if v is None]:
        del e[k]
    p = subprocess.Popen(argv, cwd=cwd, env=e, stdin=subprocess.DEVNULL, stdout=s, stderr=subprocess.PIPE)
    os.close(s)
    out = b''
    while True:
        r, _, _ = select.select([m], [], [], 20)
        if not r:
            break
        try:
            c = os.read(m, 65536)
        except OSError:
            break
        if not c:
            break
        out += c
    err = p.stderr.read()
    p.wait()
    os.close(m)
    return p.returncode, out.replace(b'\r\n', b'\n'), err


COLS = [None, '', '0', '1', '19', '20', '39', '40', '79', '80', '200', 'x', '100000000000000000000', '-5']


def w_columns(case):
    res = mkres()
    try:
        d = run.fresh_dir('c18')
        fname = case['image']
        dfsrun.write(d, fname, image_set()[fname])
        base = dfsrun.dfs(BIN, ['--file', fname, 'cat'], d)
        want = cat_data(base.out)
        for ui in (None, 'acorn', 'watford', 'opus'):
            for col in COLS:
                argv = [build.exe(BIN, 'dfs')] + (['--ui', ui] if ui else []) + ['--file', fname, 'cat']
                rc, out, err = run_on_pty(argv, d, {'COLUMNS': col} if col is not None else {})
                res['n'] += 1
                if rc != base.exit:
                    res['viol'].append(('C18:columns:exit', '%s ui=%s COLUMNS=%r: exit %s vs %s; %r' % (fname, ui, col, rc, base.exit, err[-200:])))
                elif rc == 0 and cat_data(out) != want:
                    bump(res, 'differs')
                    res['viol'].append(('C18:columns:cat-data-changes', '%s ui=%s COLUMNS=%r: %r vs %r' % (fname, ui, col, cat_data(out)[:5], want[:5])))
                else:
                    bump(res, 'same')
                res['nt'].append((fname, ui, col))
        if res['viol']:
            res['case'] = case
    except Exception:
        import traceback
        res['viol'].append(('HARNESS', traceback.format_exc()))
        res['case'] = case
    return res


def worker(case):
    return {'options': w_options, 'columns': w_columns}[case['w']](case)


def fam_options(tier):
    """every image x every command x {--verbose, --show-config} before/after --file x every --ui spelling; every run twice"""
    for fname in sorted(image_set()):
        for i in range(0, len(CMDS), 4):
            yield {'w': 'options', 'image': fname, 'cmds': CMDS[i:i + 4]}


def fam_columns(tier):
    """cat on a pseudo-terminal: COLUMNS in {unset, '', 0, 1, 19, 20, 39, 40, 79, 80, 200, x, 10^20, -5} x --ui"""
    for fname in ('v.ssd', 'w.ssd', 'o.sdd', 'v.mmb', 'two.hfe', 'v.mfm', 'v.dsd'):
        yield {'w': 'columns', 'image': fname}


FAMILIES = [('C-cat-on-pty-columns', fam_columns), ('O-options-ui-order', fam_options)]


def main(tier, seed):
    ctx = core.Ctx(PID, tier, 'exploration', seed, quick_s=240, thorough_s=1800)
    ctx.rule = ('Differential: for every (image, command) the run without diagnostic options is the baseline; --verbose and '
                '--show-config in every position must leave stdout, exit status and extracted files unchanged (and must not '
                'crash in verbose-only code: ASan build); --ui may change only the layout of cat (its parsed title/cycle/option/'
                'density/file list must be the same) and nothing of other commands; COLUMNS on a pty may change only the cat '
                'layout; every baseline run is executed twice. Non-trivial = every (image, command) and (image, ui, COLUMNS).')
    ctx.assumptions = ['pseudo-terminal via pty.openpty()']
    ctx.explore(FAMILIES, worker, tier, chunksize=1)
    ctx.samples = [{'image': 'two.hfe (two-sided FM HFE)', 'command': ['sector-map'], 'options': ['--verbose after --file']},
                   {'image': 'w.ssd', 'ui': 'opus', 'COLUMNS': '19', 'on': 'pty'}]
    return ctx.finish()


def replay(rec):
    res = worker(rec['case'])
    for sig, text in res['viol']:
        print('replayed violation:', sig, text[:300])
    if any(s == rec['signature'] for s, _ in res['viol']):
        print('VIOLATION property=%s replay=(replayed)' % PID)
        return 1
    print('no violation on replay')
    return 0
