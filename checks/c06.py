"""C06 — track decoding never returns damaged or mis-addressed sector data.
Fault enumeration: every single bit flip / deletion / insertion / zeroed run / truncation point of valid
FM and MFM tracks (decoder level, in-process), pairs of flips over the field-structure bits, and at image
level every subset of damaged sectors of a small disc in HFE and HxC-MFM containers."""
import os, itertools, struct
from lib import core, run, dfsrun, mcx, flux, render

VARIANTS = ['san', 'plain']
PID = 'C06'


def mkres():
    return {'n': 0, 'out': {}, 'viol': [], 'nt': [], 'case': None}


def bump(res, k, n=1):
    res['out'][k] = res['out'].get(k, 0) + n


def sector_data(t, r, salt=0):
    """distinct, position-dependent content per sector"""
    return bytes(((t * 31 + r * 7 + i * (r + 3) + salt) & 0xFF) for i in range(256))


def make_track(enc, nsect, t=0, h=0, short_gaps=True, deleted=(), bad_data_crc=()):
    secs = [(t, h, r, sector_data(t, r)) for r in range(nsect)]
    kw = dict(index_mark=False, gap1=6, gap3=10) if short_gaps else {}
    kw['deleted'] = set(deleted)
    kw['bad_data_crc'] = set(bad_data_crc)
    if enc == 'F':
        bits, spans = flux.fm_track(secs, **kw)
    else:
        bits, spans = flux.mfm_track(secs, **kw)
    return secs, bits, spans


def crc_ok(enc, data, crc):
    """the data field passes CRC-16/CCITT under the data mark or the deleted-data mark"""
    pre = b'' if enc == 'F' else b'\xa1\xa1\xa1'
    return any(flux.crc16(pre + bytes([mark]) + data + crc) == 0 for mark in (0xFB, 0xF8))


def judge(enc, secs, yielded, res, sig, fault_desc):
    """yielded: [((c,h,r), data|None, crc|None)] from the compact protocol"""
    pristine = {(c, h, r): d for c, h, r, d in secs}
    for addr, data, crc in yielded:
        if data is None:
            bump(res, 'sector-intact')
            continue
        if not crc_ok(enc, data, crc):
            bump(res, 'damaged-returned')
            res['viol'].append((sig + ':damaged-data-returned-as-good', '%s: sector %s yielded with data failing its CRC' % (fault_desc, addr)))
            continue
        other = [a for a, d in pristine.items() if d == data and a != addr]
        if other:
            bump(res, 'misassociated')
            res['viol'].append((sig + ':data-of-another-sector', '%s: decoder yielded address %s with the data recorded under %s' % (
                fault_desc, addr, other[0])))
        elif addr in pristine and pristine[addr] == data:
            bump(res, 'sector-intact')
        else:
            bump(res, 'crc-collision')      # passes CRC but is not recorded data: cannot be told from a valid sector


KINDS = {1: 'flip', 2: 'delete', 3: 'insert0', 4: 'insert1', 5: 'zero-run', 6: 'truncate'}


def w_sweep(case):
    res = mkres()
    try:
        enc, nsect, kind, param = case['enc'], case['nsect'], case['kind'], case.get('param', 0)
        deleted, badcrc = case.get('deleted', []), case.get('badcrc', [])
        secs, bits, spans = make_track(enc, nsect, deleted=deleted, bad_data_crc=badcrc)
        lo, hi = case.get('lo', 0), case.get('hi', 0xFFFFFFFF)
        r = mcx.call('san', mcx.req_sweep(enc, kind, param, bits, lo, hi), timeout=60)
        if r.timeout:
            # confirm alone with a longer limit before calling it a hang (a sweep normally takes a few seconds)
            r = mcx.call('san', mcx.req_sweep(enc, kind, param, bits, lo, hi), timeout=150)
        if r.timeout:
            # a decoder that never returns on some damaged track (normal sweeps take a few seconds)
            res['viol'].append(('C06:sweep:decoder-hang', '%s sweep %s over bits %d..%d of a %d-sector track did not finish in 60 s nor, run again, in 150 s' % (enc, KINDS.get(kind, kind), lo, min(hi, len(bits)), nsect)))
            res['case'] = case
            return res
        if r.status() != 'exit0':
            k, fr = __import__('lib.mcb', fromlist=['x']).san_kind(r.err)
            res['viol'].append(('C06:sweep:crash:%s:%s' % (k, fr), '%s %s' % (r.status(), r.err[-400:])))
            res['case'] = case
            return res
        rd = mcx.Reader(r.out)
        pristine = rd.sectors_full()
        expect_pristine = [((c, h, rr), d) for i, (c, h, rr, d) in enumerate(secs) if i not in deleted and i not in badcrc]
        got_pristine = [(a, d) for a, d, c in pristine]
        # a deleted-data record with a good CRC may or may not be yielded (the property is about damaged data only)
        allsecs = [((c, h, rr), d) for c, h, rr, d in secs]
        if got_pristine != expect_pristine and not (deleted and not badcrc and got_pristine == allsecs):
            if any(a == tuple(secs[i][:3]) for i in badcrc for a, _ in got_pristine):
                res['viol'].append(('C06:%s:record-with-bad-crc-yielded%s' % ('fm' if enc == 'F' else 'mfm', ':deleted-mark' if deleted else ''),
                                    'undamaged read of a track whose sector %s has a bad data CRC%s yields that sector' % (badcrc, ' under a deleted-data mark' if deleted else '')))
            else:
                res['viol'].append(('C06:pristine-track-not-decoded', 'enc=%s deleted=%s badcrc=%s: decoder returned %s' % (
                    enc, deleted, badcrc, [a for a, _ in got_pristine])))
            res['case'] = case
            return res
        idx = 0
        step = param if kind in (2, 3, 4, 6) and param else 1
        pos = lo
        while not rd.eof():
            y = rd.sectors_compact()
            judge('F' if enc == 'F' else 'M', [x for i, x in enumerate(secs) if i not in badcrc], y, res,
                  'C06:%s:%s%s' % ('fm' if enc == 'F' else 'mfm', KINDS[kind], ':deleted-record' if deleted else ''),
                  '%s track of %d sectors, %s at %s %d' % ('FM' if enc == 'F' else 'MFM', nsect, KINDS[kind],
                                                          'byte' if kind == 5 else 'bit', pos))
            res['n'] += 1
            res['out'].setdefault('yield-%d' % len(y), 0)
            res['out']['yield-%d' % len(y)] += 1
            pos += step
            idx += 1
        res['ntcount'] = idx
        res['nt'].append((enc, nsect, kind, param, lo))
        if res['viol']:
            res['case'] = case
    except Exception:
        import traceback
        res['viol'].append(('HARNESS', traceback.format_exc()))
        res['case'] = case
    return res


def structure_bits(enc, spans, which):
    """cell positions of the data bits of marks / sync tails / CRC / ID bytes for sectors in `which`"""
    pos = []
    for i in which:
        s = spans[i]
        # last sync byte + mark + id + crc of the ID field
        pos += list(range(s['id_end'] - 16 * 8, s['id_end']))
        # data mark region and first data byte
        pos += list(range(s['dm'], s['data'] + 16))
        # data CRC
        pos += list(range(s['data_end'] - 32, s['data_end']))
    return sorted(set(p for p in pos if p >= 0))


def w_cross(case):
    """double faults across fields: one flip in the data sync/mark of sector i and one in the ID sync/mark of sector i+1"""
    res = mkres()
    try:
        enc, i = case['enc'], case['i']
        secs, bits, spans = make_track(enc, 3)
        sync = 6 if enc == 'F' else 12
        a = list(range(spans[i]['dm'] - 32, spans[i]['data']))
        st = spans[i + 1]['start'] + (sync - 2) * 16
        b = list(range(st, st + 32 + (16 if enc == 'F' else 64) + 16))
        a = a[case['alo']:case['ahi']]
        r = mcx.call('san', mcx.req_pairs(enc, bits, a + b), timeout=90)
        if r.status() != 'exit0':
            res['viol'].append(('C06:cross:crash', r.status() + ' ' + r.err[-300:].decode('latin-1')))
            res['case'] = case
            return res
        rd = mcx.Reader(r.out)
        rd.sectors_full()
        pos = a + b
        n = 0
        for x in range(len(pos)):
            for y in range(x + 1, len(pos)):
                yv = rd.sectors_compact()
                judge(enc, secs, yv, res, 'C06:%s:flip-pair:data-mark-of-n+id-mark-of-n+1' % ('fm' if enc == 'F' else 'mfm'),
                      'flips at bits %d and %d (sector %d data mark region / sector %d ID mark region)' % (pos[x], pos[y], i, i + 1))
                n += 1
        res['n'] += n
        res['ntcount'] = n
        res['nt'].append((enc, i, case['alo']))
        if res['viol']:
            res['case'] = case
    except Exception:
        import traceback
        res['viol'].append(('HARNESS', traceback.format_exc()))
        res['case'] = case
    return res


def fam_cross(tier):
    """pairs of flips, one in the data sync/mark of sector n and one in the ID sync/mark of sector n+1 (all pairs)"""
    for enc in ('F', 'M'):
        for i in (0, 1):
            for alo in range(0, 130, 16):
                yield {'w': 'cross', 'enc': enc, 'i': i, 'alo': alo, 'ahi': alo + 16}


def w_pairs(case):
    res = mkres()
    try:
        enc, nsect = case['enc'], case['nsect']
        secs, bits, spans = make_track(enc, nsect)
        allpos = structure_bits(enc, spans, range(nsect))
        # only data-bit cells (odd positions within a byte cell pair) unless 'clocks' requested
        sel = allpos[case['slice'][0]:case['slice'][1]]
        others = allpos
        # pairs (a in sel, b in all, b > a): sent as explicit list via repeated X requests of small groups
        req = b''
        groups = []
        for a in sel:
            grp = [a] + [b for b in others if b > a]
            groups.append(grp)
        for grp in groups:
            # protocol flips every unordered pair of the listed positions; to restrict to pairs containing `a`
            # we send [a, b] pairs in chunks: cheaper to send a star as many 2-element requests
            pass
        # star requests: one X per (a, chunk of b) would be wasteful; instead use full pairwise over small windows
        total = 0
        for gi in range(0, len(sel), 12):
            window = sel[gi:gi + 12]
            ext = sorted(set(window + [b for b in others if window[0] < b <= window[-1] + 400]))[:60]
            r = mcx.call('san', mcx.req_pairs(enc, bits, ext), timeout=90)
            if r.status() != 'exit0':
                res['viol'].append(('C06:pairs:crash', r.status() + ' ' + r.err[-300:].decode('latin-1')))
                break
            rd = mcx.Reader(r.out)
            rd.sectors_full()
            k = 0
            for a in range(len(ext)):
                for b in range(a + 1, len(ext)):
                    y = rd.sectors_compact()
                    judge(enc, secs, y, res, 'C06:%s:flip-pair' % ('fm' if enc == 'F' else 'mfm'),
                          'flips at bits %d and %d' % (ext[a], ext[b]))
                    res['n'] += 1
                    k += 1
            total += k
        res['ntcount'] = total
        res['nt'].append((enc, nsect, 'pairs', tuple(case['slice'])))
        if res['viol']:
            res['case'] = case
    except Exception:
        import traceback
        res['viol'].append(('HARNESS', traceback.format_exc()))
        res['case'] = case
    return res


# ------------------------------------------------------------------------------- image level
def disc_surface(ntracks, spt, cat_total=None):
    """catalogue in sectors 0/1 (valid, total = ntracks*spt), distinct data elsewhere"""
    from lib import disc
    img = bytearray()
    for t in range(ntracks):
        for r in range(spt):
            img += sector_data(t, r, salt=17)
    # files: one per sector from sector 2 on (as many as the catalogue holds), so that a read through the catalogue
    # (logical block address -> cylinder/record) is checked sector by sector as well as dump-sector
    n = cat_total or ntracks * spt
    ents = [disc.Entry(b'S%03d' % k, b'$', False, 0, 0, 256, k) for k in range(min(n - 1, 32), 1, -1)]
    s0, s1 = disc.catalogue(b'C06', 1, 0, n, ents)
    img[0:256] = s0
    img[256:512] = s1
    return bytes(img)


DAMAGES = ['data-crc', 'id-crc', 'data-mark', 'deleted-bad-crc']


def build_damaged(container, ntracks, spt, damaged, how, cat_total=None, stray=None):
    """damaged: set of (t, r) sectors; how: damage kind.  Returns file bytes."""
    surf = disc_surface(ntracks, spt, cat_total)
    enc = 'FM' if container == 'hfe-fm' else 'MFM'
    tracks = []
    for t in range(ntracks):
        secs = []
        for r in range(spt):
            o = (t * spt + r) * 256
            secs.append((t, 0, r, surf[o:o + 256]))
        if how == 'stray':
            # a well-formed sector (both CRCs good) recorded on physical track t whose ID names another cylinder/head/record
            for (pt, pr, cc, ch, cr) in stray or []:
                if pt == t:
                    secs[pr] = (cc, ch, cr, (b'STRAY from physical track %d position %d claiming (%d,%d,%d) ' % (pt, pr, cc, ch, cr)).ljust(256, b'!'))
        idx = set(r for (tt, r) in damaged if tt == t)
        kw = {}
        if how == 'data-crc':
            kw['bad_data_crc'] = idx
        elif how == 'id-crc':
            kw['bad_id_crc'] = idx
        elif how == 'deleted-bad-crc':
            kw['bad_data_crc'] = idx
            kw['deleted'] = idx
        elif how == 'data-mark':
            kw['drop_data_mark' if enc == 'FM' else 'drop_data_sync'] = idx
        if enc == 'FM':
            bits, _ = flux.fm_track(secs, **kw)
            tracks.append(flux.pack_lsb_first(flux.fm_to_hfe_cells(bits)))
        else:
            bits, _ = flux.mfm_track(secs, **kw)
            tracks.append(flux.pack_lsb_first(bits) if container.startswith('hfe') else flux.pack_msb_first(bits))
    if container.startswith('hfe'):
        return flux.hfe_image([tracks], enc, 1), surf
    return flux.hxcmfm_image([tracks]), surf


def w_image(case):
    """one damaged image: read every (track, sector) with dump-sector"""
    res = mkres()
    try:
        container, nt, spt, how = case['container'], case['ntracks'], case['spt'], case['how']
        damaged = set(tuple(x) for x in case['damaged'])
        data, surf = build_damaged(container, nt, spt, damaged, how, case.get('cat_total'), case.get('stray'))
        d = run.fresh_dir('c06')
        name = 'img.hfe' if container.startswith('hfe') else 'img.mfm'
        dfsrun.write(d, name, data)
        sig = 'C06:image:%s:%s' % (container, how)
        if how == 'stray':
            (pt, pr, cc, ch, cr) = case['stray'][0]
            sig += ':%s-cylinder:%s' % ('higher' if cc > pt else 'lower' if cc < pt else 'same', 'head%d' % ch)
        for t in range(nt):
            for r in range(spt):
                rr = dfsrun.dfs('plain', ['--file', name, 'dump-sector', '0', str(t), str(r)], d)
                res['n'] += 1
                if rr.sig or rr.timeout:
                    res['viol'].append((sig + ':crash', '%s' % rr.status()))
                    continue
                if rr.exit != 0:
                    bump(res, 'read-failed')
                    if not damaged:
                        res['viol'].append((sig + ':undamaged-image-unreadable', 'sector (%d,%d): %r' % (t, r, rr.err[:100])))
                    continue
                try:
                    got, _ = render.parse_dump(rr.out)
                except render.ParseError as e:
                    res['viol'].append((sig + ':parse', str(e)))
                    continue
                want = surf[(t * spt + r) * 256:(t * spt + r + 1) * 256]
                if got == want:
                    bump(res, 'read-correct' if (t, r) not in damaged else 'read-correct-though-damaged')
                    if (t, r) in damaged and how in ('data-crc', 'deleted-bad-crc'):
                        res['viol'].append((sig + ':damaged-sector-returned', 'sector (%d,%d) has a bad data CRC but was returned' % (t, r)))
                else:
                    where = [(tt, r2) for tt in range(nt) for r2 in range(spt)
                             if surf[(tt * spt + r2) * 256:(tt * spt + r2 + 1) * 256] == got]
                    bump(res, 'read-wrong')
                    pos = 'last-of-track' if any(dr == spt - 1 for (_, dr) in damaged) else (
                        'first-of-track' if any(dr == 0 for (_, dr) in damaged) else 'interior')
                    allt = 'all-tracks' if len(set(tt for tt, _ in damaged)) == nt and len(set(dr for _, dr in damaged)) == 1 else 'some'
                    res['viol'].append(('%s:wrong-sector-returned:%s:%s' % (sig, pos, allt),
                                        '%s with %s on sectors %s: dump-sector 0 %d %d returned the data of %s' % (
                                            name, how, sorted(damaged), t, r, where[:1] or 'no recorded sector')))
        # the same sectors through the catalogue
        for k in range(2, min(case.get('cat_total') or nt * spt, 33)):
            t, r = divmod(k, spt)
            rr = dfsrun.dfs('plain', ['--file', name, 'type', '--binary', 'S%03d' % k], d)
            res['n'] += 1
            if rr.sig or rr.timeout:
                res['viol'].append((sig + ':crash', rr.status()))
            elif rr.exit != 0:
                bump(res, 'file-read-failed')
            else:
                want = surf[k * 256:(k + 1) * 256]
                if rr.out == want and (t, r) not in damaged:
                    bump(res, 'file-read-correct')
                elif rr.out == want:
                    if how in ('data-crc', 'deleted-bad-crc'):
                        res['viol'].append((sig + ':damaged-sector-returned:file-read', 'sector %d' % k))
                else:
                    where = [j for j in range(nt * spt) if surf[j * 256:(j + 1) * 256] == rr.out]
                    bump(res, 'file-read-wrong')
                    res['viol'].append((sig + ':wrong-sector-returned:file-read', '%s with %s on %s: type of the file in sector %d (track %d sector %d) '
                                        'returned the data of sector %s' % (name, how, sorted(damaged), k, t, r, where[:1] or '?')))
        res['nt'].append((container, nt, spt, how, tuple(sorted(damaged))))
        if res['viol']:
            res['case'] = case
    except Exception:
        import traceback
        res['viol'].append(('HARNESS', traceback.format_exc()))
        res['case'] = case
    return res


def worker(case):
    return {'sweep': w_sweep, 'pairs': w_pairs, 'image': w_image, 'cross': w_cross}[case['w']](case)


def track_bits(enc, nsect):
    return len(make_track(enc, nsect)[1])


def fam_single(tier):
    """every single bit flip, deletion, insertion (0/1), truncation point and zeroed run {1,2,8,16,64,300 bytes} of 3-sector FM and MFM tracks"""
    for enc in ('F', 'M'):
        n = track_bits(enc, 3)
        chunk = 2000
        for kind in (1, 2, 3, 4, 6):
            for lo in range(0, n + 1, chunk):
                yield {'w': 'sweep', 'enc': enc, 'nsect': 3, 'kind': kind, 'param': 1, 'lo': lo, 'hi': lo + chunk}
        for L in (1, 2, 8, 16, 64, 300):
            for lo in range(0, n // 8 + 1, 300):
                yield {'w': 'sweep', 'enc': enc, 'nsect': 3, 'kind': 5, 'param': L, 'lo': lo, 'hi': lo + 300}


def fam_deleted(tier):
    """tracks containing a deleted-data record (mark F8), with a good and with a bad data CRC, and an ordinary record with a bad CRC: every single bit flip"""
    for enc in ('F', 'M'):
        for deleted, badcrc in (([1], []), ([1], [1]), ([], [1]), ([0], [0]), ([2], [2])):
            n = len(make_track(enc, 3, deleted=deleted, bad_data_crc=badcrc)[1])
            chunk = 3000
            for lo in range(0, n + 1, chunk):
                yield {'w': 'sweep', 'enc': enc, 'nsect': 3, 'kind': 1, 'param': 1, 'lo': lo, 'hi': lo + chunk, 'deleted': deleted, 'badcrc': badcrc}


def fam_full(tier):
    """full tracks (10 FM / 18 MFM sectors): every single bit flip; truncation at every byte; slips at every byte (quick) / bit (thorough)"""
    for enc, ns in (('F', 10), ('M', 18)):
        n = track_bits(enc, ns)
        chunk = 1500
        for lo in range(0, n, chunk):
            yield {'w': 'sweep', 'enc': enc, 'nsect': ns, 'kind': 1, 'param': 1, 'lo': lo, 'hi': lo + chunk}
        step = 8 if tier == 'quick' else 1
        for kind in (2, 3, 6):
            for lo in range(0, n, chunk * step):
                yield {'w': 'sweep', 'enc': enc, 'nsect': ns, 'kind': kind, 'param': step, 'lo': lo, 'hi': lo + chunk * step}


def fam_pairs(tier):
    """pairs of flips over the field-structure bits (sync tail, marks, ID, CRCs) of a 3-sector track"""
    for enc in ('F', 'M'):
        secs, bits, spans = make_track(enc, 3)
        npos = len(structure_bits(enc, spans, range(3)))
        step = 48 if tier == 'quick' else 12
        for a in range(0, npos, step):
            yield {'w': 'pairs', 'enc': enc, 'nsect': 3, 'slice': [a, a + 12]}


def fam_image(tier):
    """image level: every subset of damaged sectors on a 2-track x 5-sector disc (quick: subsets of size <=2 plus per-record-on-every-track) in HFE(FM), HFE(MFM), HxC-MFM; singles+pairs on a full-size track"""
    cells = [(t, r) for t in range(2) for r in range(5)]
    for container in ('hfe-fm', 'hfe-mfm', 'mfm'):
        for how in DAMAGES:
            subsets = []
            if tier == 'thorough':
                for k in range(0, 11):
                    subsets += [list(c) for c in itertools.combinations(cells, k)]
            else:
                for k in range(0, 3):
                    subsets += [list(c) for c in itertools.combinations(cells, k)]
                for r in range(5):
                    subsets.append([(0, r), (1, r)])
            for sub in subsets:
                yield {'w': 'image', 'container': container, 'ntracks': 2, 'spt': 5, 'how': how, 'damaged': sub}
        # a file system smaller than the disc (catalogue total 12 of 20 sectors): an image that loses sectors still has
        # room for the catalogue's total, so a mis-derived geometry shows as wrong data instead of a rejected image
        for how in DAMAGES:
            for t in range(4):
                for r in range(5):
                    yield {'w': 'image', 'container': container, 'ntracks': 4, 'spt': 5, 'how': how, 'damaged': [(t, r)], 'cat_total': 12}
        # misaddressed but well-formed sectors: physical track pt carries, at position pr, a sector whose ID names cylinder cc
        # (every other cylinder and one beyond the disc), head 0/1 and record {same, another existing one, a new one}
        for pt in range(4):
            for pr in (0, 2, 4):
                for cc in [c for c in range(4) if c != pt] + [7]:
                    for ch in (0, 1):
                        for cr in (pr, (pr + 1) % 5, 5):
                            for ct in (None, 12):
                                yield {'w': 'image', 'container': container, 'ntracks': 4, 'spt': 5, 'how': 'stray', 'damaged': [(pt, pr)],
                                       'stray': [[pt, pr, cc, ch, cr]], 'cat_total': ct}
        for pr in (0, 2, 4):                      # same cylinder, wrong head only
            yield {'w': 'image', 'container': container, 'ntracks': 4, 'spt': 5, 'how': 'stray', 'damaged': [(1, pr)], 'stray': [[1, pr, 1, 1, pr]]}
        # full-size tracks: 2 tracks of 10 (FM) / 18 (MFM) sectors, singles and same-record-on-all-tracks
        spt = 10 if container == 'hfe-fm' else 18
        for how in DAMAGES:
            for r in range(spt):
                yield {'w': 'image', 'container': container, 'ntracks': 2, 'spt': spt, 'how': how, 'damaged': [(0, r)]}
                yield {'w': 'image', 'container': container, 'ntracks': 2, 'spt': spt, 'how': how, 'damaged': [(0, r), (1, r)]}


FAMILIES = [('S-single-faults-3-sector-tracks', fam_single), ('D-deleted-and-bad-crc-records', fam_deleted), ('I-image-level-damaged-subsets', fam_image),
            ('P-flip-pairs-structure-bits', fam_pairs), ('X-cross-field-double-faults', fam_cross), ('F-full-track-single-faults', fam_full)]


def main(tier, seed):
    ctx = core.Ctx(PID, tier, 'fault_enumeration', seed, quick_s=300, thorough_s=2700)
    ctx.rule = ('Decoder level (real decode_fm_track/decode_mfm_track in-process under ASan): every single bit flip, '
                'deletion, insertion, zeroed run and truncation point of valid tracks with distinct per-sector data, and '
                'pairs of flips over the field-structure bits; each yielded sector must pass CRC-16/CCITT over mark+data+crc '
                'and must not carry data recorded under a different address (a CRC-passing sector that is no recorded data '
                'is counted as a collision, not a violation). Image level: every subset (thorough) of damaged sectors of a '
                'small disc in HFE/HxC-MFM; dump-sector of every (track, sector) must return that sector\'s data or fail. '
                'Non-trivial = every fault position / damaged subset (all distinct).')
    ctx.assumptions = ['CRC collisions cannot be told from valid sectors', 'flux encoders lib/flux.py validated by decoding '
                       'undamaged tracks/images first (pristine check in every case)']
    for name, gen in FAMILIES:
        ctx.family(name, (gen.__doc__ or '').strip())
        if run.Deadline.hit or ctx.timed_out():
            ctx.done(name, False)
            continue
        for res in run.pmap(worker, gen(tier), chunksize=1, deadline=ctx.deadline):
            ctx.absorb(res)
            extra = res.get('ntcount', 0)
            if extra:
                ctx.cur['distinct_nontrivial'] += extra
                ctx.bulk_nt = getattr(ctx, 'bulk_nt', 0) + extra
        ctx.done(name, not run.Deadline.hit)
    ctx.samples = [{'family': 'S', 'track': 'FM, 3 sectors', 'fault': 'flip of cell bit 1234'},
                   {'family': 'I', 'container': 'mfm', 'damaged': [[0, 4]], 'how': 'data-crc'}]
    return ctx.finish()


def replay(rec):
    res = worker(rec['case'])
    for sig, text in res['viol']:
        print('replayed violation:', sig, text[:300])
    if any(s == rec['signature'] for s, _ in res['viol']):
        print('VIOLATION property=%s replay=(replayed)' % PID)
        return 1
    print('no violation on replay')
    return 0
