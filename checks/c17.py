"""C17 — no command returns bytes from outside the volume or surface being read.
Exhaustive at the boundary: every Opus volume A-H (2..8 volumes, 1..3 tracks each), both sides of two-sided
images (interleaved and not), MMB slots; one catalogue entry whose extent ends at B-2..B+2 for the region
boundary B, by every split of start/length in that window and length mod 256 in {0,1,255}."""
import os, itertools
from lib import core, run, dfsrun, disc, render

VARIANTS = ['plain']
PID = 'C17'
BIN = 'plain'


def mkres():
    return {'n': 0, 'out': {}, 'viol': [], 'nt': [], 'case': None}


def bump(res, k, n=1):
    res['out'][k] = res['out'].get(k, 0) + n


def check_bytes(res, sig, note, data, allowed, what):
    foreign = [b for b in set(data) if b not in allowed]
    if foreign:
        bump(res, 'leak')
        res['viol'].append((sig + ':foreign-bytes:' + what, '%s: %s output contains bytes %s that belong to another region (own region byte %s)' % (
            note, what, sorted('%c' % b if 32 < b < 127 else hex(b) for b in foreign)[:4], sorted(chr(a) for a in allowed)[:2])))
        return False
    return True


def run_entry_cmds(res, d, fname, drive, vol, crossing, expect_len, own, sig, note):
    """type --binary / dump / extract-files on the entry $.X of one volume"""
    dl = '%d%s' % (drive, vol or '')
    allowed = {own}
    r = dfsrun.dfs(BIN, ['--file', fname, 'type', '--binary', ':%s.$.X' % dl], d)
    res['n'] += 1
    if r.sig or r.timeout:
        res['viol'].append((sig + ':crash', note))
    check_bytes(res, sig, note, r.out, allowed, 'type')
    if crossing:
        if r.status() == 'exit0':
            bump(res, 'crossing-accepted')
            res['viol'].append((sig + ':crossing-entry-not-reported', '%s: type --binary of an entry reaching past the boundary exited 0 with %d bytes' % (note, len(r.out))))
        elif not r.err.strip():
            res['viol'].append((sig + ':no-diagnostic', note))
        else:
            bump(res, 'crossing-rejected')
    else:
        if r.status() != 'exit0' or len(r.out) != expect_len:
            res['viol'].append((sig + ':inside-entry-not-delivered', '%s: %s, %d bytes (want %d) %r' % (note, r.status(), len(r.out), expect_len, r.err[:80])))
        else:
            bump(res, 'inside-delivered')
    r = dfsrun.dfs(BIN, ['--file', fname, 'dump', ':%s.$.X' % dl], d)
    res['n'] += 1
    if r.status() == 'exit0':
        try:
            data, _ = render.parse_dump(r.out)
            check_bytes(res, sig, note, data, allowed, 'dump')
            if crossing:
                res['viol'].append((sig + ':crossing-entry-not-reported:dump', note))
        except render.ParseError:
            pass
    od = os.path.join(d, 'out')
    os.makedirs(od, exist_ok=True)
    for x in os.listdir(od):
        os.unlink(os.path.join(od, x))
    r = dfsrun.dfs(BIN, ['--file', fname, '--drive', dl, 'extract-files', 'out'], d)
    res['n'] += 1
    tree = dfsrun.read_tree(od)
    if 'X' in tree:
        check_bytes(res, sig, note, tree['X'], allowed, 'extract-files')
    if crossing and r.status() == 'exit0':
        res['viol'].append((sig + ':crossing-entry-not-reported:extract-files', note))


def window(B, first):
    """(start, length) pairs with start + ceil(len/256) in B-2..B+2"""
    out = []
    for end in range(B - 2, B + 3):
        for n in (1, 2, 3):
            st = end - n
            if st < first:
                continue
            for rem in (0, 1, 255):
                ln = n * 256 if rem == 0 else (n - 1) * 256 + rem
                if ln <= 0:
                    continue
                out.append((st, ln, end > B))
    return out


def w_opus(case):
    res = mkres()
    try:
        nv, sz, tracks = case['nv'], case['size'], case['tracks']
        L = case['vol']
        letters = 'ABCDEFGH'[:nv]
        nsect = tracks * 18
        img = bytearray(b'\xEE' * (nsect * 256))
        ext = {}
        perm = case.get('perm') or list(range(nv))     # letter i sits in physical position perm[i] (A..H need not ascend by track)
        for i, X in enumerate(letters):
            origin = (1 + perm[i] * sz) * 18
            end = (1 + (perm[i] + 1) * sz) * 18 if perm[i] + 1 < nv else nsect
            ext[X] = (origin, end - origin)
            img[origin * 256:end * 256] = bytes([ord(X)]) * ((end - origin) * 256)
        st, ln, crossing = case['entry']
        B = ext[L][1]
        vols = {}
        for i, X in enumerate(letters):
            ents = [disc.Entry(b'X', b'$', False, 0, 0, ln, st)] if X == L else [disc.Entry(b'X', b'$', False, 0, 0, 256, 0)]
            vols[X] = ents
        s16 = bytearray(256)
        s16[0], s16[1], s16[2], s16[3], s16[4] = 0x20, (nsect >> 8) & 0xFF, nsect & 0xFF, 18, tracks
        for i, X in enumerate(letters):
            s16[8 + 2 * i] = 1 + perm[i] * sz
            cat_total = min(ext[X][1], 1023)
            if X == L and case.get('inflate'):
                # the volume's own catalogue claims more sectors than the volume has (the disc catalogue in sector 16
                # is what defines the extent)
                cat_total = min(ext[X][1] + case['inflate'], 1023)
            s0, s1 = disc.catalogue(b'V' + X.encode(), 0, 0, cat_total, vols[X])
            img[2 * i * 256:(2 * i + 1) * 256] = s0
            img[(2 * i + 1) * 256:(2 * i + 2) * 256] = s1
        for i in range(len(letters), 8):
            img[2 * i * 256:(2 * i + 2) * 256] = bytes(512)
        img[16 * 256:17 * 256] = s16
        img[17 * 256:18 * 256] = bytes(256)
        d = run.fresh_dir('c17')
        dfsrun.write(d, 'img.sdd', bytes(img))
        last = (perm[letters.index(L)] == nv - 1)
        sig = 'C17:opus:%s%s%s' % ('last-volume' if last else 'inner-volume', ':inflated-catalogue-total' if case.get('inflate') else '',
                                     ':letters-not-in-track-order' if case.get('perm') else '')
        note = 'Opus %d volumes of %d track(s), volume %s (%d sectors), entry start=%d length=%d (ends at %d)' % (
            nv, sz, L, B, st, ln, st + (ln + 255) // 256)
        run_entry_cmds(res, d, 'img.sdd', 0, L, crossing, ln, ord(L), sig, note)
        res['nt'].append((nv, sz, L, st, ln, tuple(perm), case.get('inflate')))
        if res['viol']:
            res['case'] = case
    except Exception:
        import traceback
        res['viol'].append(('HARNESS', traceback.format_exc()))
        res['case'] = case
    return res


def w_surface(case):
    """two-sided images and MMB slots: the entry lives on one surface, the neighbours are filled with other bytes"""
    res = mkres()
    try:
        cont, nt, spt, which = case['container'], case['ntracks'], case['spt'], case['which']
        st, ln, crossing = case['entry']
        n = nt * spt

        def surf(fill, entry):
            ents = [disc.Entry(b'X', b'$', False, 0, 0, entry[1], entry[0])] if entry else [disc.Entry(b'X', b'$', False, 0, 0, 256, 2)]
            img = bytearray(bytes([fill]) * (n * 256))
            s0, s1 = disc.catalogue(b'S' + bytes([fill]), 0, 0, min(n, 1023), ents)
            img[0:256], img[256:512] = s0, s1
            return bytes(img)
        d = run.fresh_dir('c17')
        if cont in ('dsd', 'ddd'):
            s0 = surf(ord('a'), (st, ln) if which == 0 else None)
            s1 = surf(ord('b'), (st, ln) if which == 1 else None)
            data = disc.interleave(s0, s1, spt)
            fname = 'img.' + cont
            drive = 2 * which
            own = ord('a') if which == 0 else ord('b')
        elif cont in ('ssd', 'sdd'):
            s0 = surf(ord('a'), (st, ln) if which == 0 else None)
            s1 = surf(ord('b'), (st, ln) if which == 1 else None)
            data = s0 + s1
            fname = 'img.' + cont
            drive = 2 * which
            own = ord('a') if which == 0 else ord('b')
        else:
            slots = case['slots']
            path = os.path.join(d, 'img.mmb')
            with open(path, 'wb') as f:
                f.write(disc.mmb_header({s: (0x0F if s == which else case.get('nstat', 0x0F)) for s in slots}))
                for s in slots:
                    f.seek(8192 + s * 204800)
                    f.write(surf(0x41 + slots.index(s), (st, ln) if s == which else None))
                f.truncate(8192 + 511 * 204800)
            data = None
            fname = 'img.mmb'
            drive = 2 * which
            own = 0x41 + slots.index(which)
        if data is not None:
            dfsrun.write(d, fname, data)
        sig = 'C17:%s:surface%s' % (cont, which if cont != 'mmb' else '-slot')
        note = '%s %dx%d, entry on %s %d: start=%d length=%d (ends at %d of %d)' % (cont, nt, spt, 'slot' if cont == 'mmb' else 'side', which, st, ln,
                                                                                     st + (ln + 255) // 256, n)
        run_entry_cmds(res, d, fname, drive, None, crossing, ln, own, sig, note)
        # whole-surface commands
        od = os.path.join(d, 'out')
        for x in os.listdir(od):
            os.unlink(os.path.join(od, x))
        r = dfsrun.dfs(BIN, ['--file', fname, '--drive', str(drive), 'extract-unused', 'out'], d)
        res['n'] += 1
        for nm, body in dfsrun.read_tree(od).items():
            check_bytes(res, sig, note, body, {own}, 'extract-unused')
        r = dfsrun.dfs(BIN, ['--file', fname, 'sector-map', str(drive)], d)
        res['n'] += 1
        if r.status() == 'exit0':
            try:
                owners = render.parse_sector_map(r.out)
                if len(owners) > n:
                    res['viol'].append((sig + ':sector-map-longer-than-surface', '%s: %d sectors listed' % (note, len(owners))))
                else:
                    bump(res, 'sector-map-within-surface')
            except render.ParseError:
                pass
        res['nt'].append((cont, nt, spt, which, st, ln, case.get('nstat')))
        if res['viol']:
            res['case'] = case
    except Exception:
        import traceback
        res['viol'].append(('HARNESS', traceback.format_exc()))
        res['case'] = case
    return res


def worker(case):
    return {'opus': w_opus, 'surface': w_surface}[case['w']](case)


def fam_opus(tier):
    """every Opus volume A-H of discs with 2..8 volumes of 1..3 tracks: entry extents ending at B-2..B+2"""
    for nv in range(2, 9):
        for sz in (1, 2, 3):
            tracks = 40 if 1 + nv * sz < 40 else 80
            for i, L in enumerate('ABCDEFGH'[:nv]):
                B = sz * 18 if i + 1 < nv else tracks * 18 - (1 + i * sz) * 18
                if B > 1023 - 3:
                    continue            # start sector field is 10 bits
                ws = window(B, 0)
                if tier == 'quick' and sz == 3:
                    ws = ws[::2]
                for (st, ln, crossing) in ws:
                    yield {'w': 'opus', 'nv': nv, 'size': sz, 'tracks': tracks, 'vol': L, 'entry': [st, ln, crossing]}
                    if crossing and (tier == 'thorough' or (nv in (2, 3, 8) and sz in (1, 2))):
                        for inflate in (1, 2, 18, 500):
                            yield {'w': 'opus', 'nv': nv, 'size': sz, 'tracks': tracks, 'vol': L, 'entry': [st, ln, crossing], 'inflate': inflate}


def fam_opus_perm(tier):
    """Opus discs whose volume letters are NOT in ascending track order: every non-identity assignment of 2..3 (thorough: 4) volumes
    of 1..2 tracks to physical positions, every volume, entry extents ending at B-2..B+2 of the volume's true extent"""
    for nv in ((2, 3) if tier == 'quick' else (2, 3, 4)):
        for sz in (1, 2):
            tracks = 40
            for perm in itertools.permutations(range(nv)):
                if list(perm) == list(range(nv)):
                    continue
                for i, L in enumerate('ABCDEFGH'[:nv]):
                    B = sz * 18 if perm[i] + 1 < nv else tracks * 18 - (1 + perm[i] * sz) * 18
                    for (st, ln, crossing) in window(B, 0):
                        yield {'w': 'opus', 'nv': nv, 'size': sz, 'tracks': tracks, 'vol': L, 'entry': [st, ln, crossing], 'perm': list(perm)}


def fam_sides(tier):
    """both sides of .dsd/.ddd and of two-sided non-interleaved .ssd/.sdd: entry extents around the end of the surface"""
    for cont, nt, spt in (('dsd', 40, 10), ('dsd', 80, 10), ('ddd', 40, 18), ('ddd', 35, 18), ('ssd', 40, 10), ('ssd', 80, 10), ('sdd', 40, 18)):
        n = nt * spt
        for which in (0, 1):
            for (st, ln, crossing) in window(n, 2):
                yield {'w': 'surface', 'container': cont, 'ntracks': nt, 'spt': spt, 'which': which, 'entry': [st, ln, crossing]}


def fam_mmb(tier):
    """MMB slots 0,1,509,510 (quick) / every 16th slot and both ends (thorough) with occupied neighbours"""
    slots = [0, 1, 509, 510] if tier == 'quick' else sorted(set([0, 1, 2, 254, 255, 256, 508, 509, 510] + list(range(0, 511, 16))))
    for s in slots:
        neigh = sorted(set(x for x in (s - 1, s, s + 1) if 0 <= x <= 510))
        for (st, ln, crossing) in window(800, 2):
            yield {'w': 'surface', 'container': 'mmb', 'ntracks': 80, 'spt': 10, 'which': s, 'slots': neigh, 'entry': [st, ln, crossing]}
    # neighbours that hold a complete disc but whose status byte says read-only / unformatted / invalid / unknown:
    # the slot read must still be its own 200K region
    for s in ([1, 2, 510] if tier == 'quick' else [1, 2, 3, 255, 256, 509, 510]):
        neigh = sorted(set(x for x in (s - 2, s - 1, s, s + 1) if 0 <= x <= 510))
        for nstat in (0x00, 0xF0, 0xFF, 0x55):
            for (st, ln, crossing) in window(800, 2):
                yield {'w': 'surface', 'container': 'mmb', 'ntracks': 80, 'spt': 10, 'which': s, 'slots': neigh, 'entry': [st, ln, crossing], 'nstat': nstat}


FAMILIES = [('O-opus-volume-boundaries', fam_opus), ('Q-opus-letters-not-in-track-order', fam_opus_perm), ('S-side-boundaries', fam_sides), ('M-mmb-slot-boundaries', fam_mmb)]


def main(tier, seed):
    ctx = core.Ctx(PID, tier, 'exploration', seed, quick_s=220, thorough_s=1800)
    ctx.rule = ('Each region (Opus volume, disc side, MMB slot) is filled with a byte that names it; one catalogue entry is '
                'placed so that its extent ends at B-2..B+2 (B = end of the region) by every split of start/length in that '
                'window with length mod 256 in {0,1,255}. type --binary, dump and extract-files (and extract-unused / '
                'sector-map for surfaces) must output only the own region\'s byte; an extent reaching past B must be '
                'reported as an error. Non-trivial = every (region, start, length) case.')
    ctx.assumptions = ['the catalogue of the entry\'s own region is otherwise valid (the crossing entry is the only defect)']
    ctx.explore(FAMILIES, worker, tier, chunksize=4)
    ctx.samples = [{'family': 'O', 'volumes': 3, 'tracks_per_volume': 1, 'volume': 'B', 'entry': {'start': 16, 'length': 512},
                    'boundary': 18, 'expect': 'rejected'},
                   {'family': 'S', 'container': 'dsd', 'side': 0, 'entry': {'start': 399, 'length': 257}, 'expect': 'error, no side-1 bytes'}]
    return ctx.finish()


def replay(rec):
    res = worker(rec['case'])
    for sig, text in res['viol']:
        print('replayed violation:', sig, text[:300])
    if any(s == rec['signature'] for s, _ in res['viol']):
        print('VIOLATION property=%s replay=(replayed)' % PID)
        return 1
    print('no violation on replay')
    return 0
