"""C14 — free, space, sector-map and extract-unused agree with the catalogue and with each other.
Exhaustive over all non-overlapping layouts of a few files (incl. zero-length) on tiny discs for Acorn,
Watford (every split over the two catalogue halves) and Opus volumes, plus boundary layouts on large
totals and every geometry; oracle computed from the catalogue description alone."""
import os, itertools
from lib import core, run, dfsrun, disc, render

VARIANTS = ['plain']
PID = 'C14'
BIN = 'plain'


def mkres():
    return {'n': 0, 'out': {}, 'viol': [], 'nt': [], 'case': None}


def bump(res, k, n=1):
    res['out'][k] = res['out'].get(k, 0) + n


def nsec(length):
    return (length + 255) // 256


def expected(kind, total, files, catsec):
    """files: [(start, length)] (any order).  Returns dict of expected quantities, sectors relative to the volume."""
    owner = {}
    for s in range(catsec):
        owner[s] = 'cat'
    for i, (st, ln) in enumerate(files):
        for s in range(st, st + nsec(ln)):
            owner[s] = i
    free_runs = []
    s = 0
    while s < total:
        if s in owner:
            s += 1
            continue
        e = s
        while e < total and e not in owner:
            e += 1
        free_runs.append((s, e - s))
        s = e
    highest = max([st + nsec(ln) for st, ln in files if ln > 0] + [catsec])
    return {'owner': owner, 'free_runs': free_runs, 'used': highest,
            'free_total': total - catsec - sum(nsec(ln) for _, ln in files)}


def check_volume(res, d, fname, kind, drive, vol, total, files, names, maxfiles, sig, note, spt, origin=0, whole=None):
    """files: [(start, length)] in catalogue order; names: labels printed by sector-map for them"""
    catsec = {'acorn': 2, 'watford': 4, 'opus': 0}[kind]
    exp = expected(kind, total, files, catsec)
    dl = '%d%s' % (drive, vol or '')
    # ---- free
    r = dfsrun.dfs(BIN, ['--file', fname, 'free', dl], d)
    res['n'] += 1
    if r.status() != 'exit0':
        res['viol'].append((sig + ':free:failed:' + r.status(), '%s: %r' % (note, r.err[:120])))
    else:
        try:
            f = render.parse_free(r.out)
            nf = len(files)
            errs = []
            if f['Used']['files'] != nf or f['Used']['files'] + f['Free']['files'] != maxfiles:
                errs.append('files')
            if f['Used']['sectors'] + f['Free']['sectors'] != total:
                errs.append('sector-sum')
            if f['Used']['bytes'] != f['Used']['sectors'] * 256 or f['Free']['bytes'] != f['Free']['sectors'] * 256:
                errs.append('bytes')
            used_defined = kind != 'opus' or exp['used'] >= 2
            want_used = exp['used'] if kind != 'opus' else max(exp['used'], 2)
            # The property counts sectors a file *occupies*; an empty file occupies none, but DFS's own *FREE takes
            # the start sector of an empty file that lies beyond every other file as the high-water mark.  The
            # property is silent on that reading, so both are accepted (DESIGN.md section 3).
            alt = max([want_used] + [st for st, ln in files if ln == 0])
            if used_defined and f['Used']['sectors'] not in (want_used, alt):
                errs.append('used-nofiles' if not any(ln for _, ln in files) else 'used')
            if errs:
                bump(res, 'free-bad')
                res['viol'].append(('%s:free:%s' % (sig, errs[0]), '%s: free says %r; expected used=%d of total=%d, %d/%d files' % (
                    note, f, exp['used'], total, nf, maxfiles)))
            else:
                bump(res, 'free-ok')
        except render.ParseError as e:
            res['viol'].append((sig + ':free:parse', str(e)))
    # ---- space
    r = dfsrun.dfs(BIN, ['--file', fname, 'space', dl], d)
    res['n'] += 1
    if r.status() != 'exit0':
        res['viol'].append((sig + ':space:failed:' + r.status(), '%s: %r' % (note, r.err[:120])))
    else:
        try:
            sp = render.parse_space(r.out)
            if len(sp) != 1:
                raise render.ParseError('one volume expected: %r' % r.out[:80])
            _, gaps, tot = sp[0]
            want = sorted(n for _, n in exp['free_runs'])
            zl = any(ln == 0 for _, ln in files)
            # second accepted reading: an empty file lying inside a free run is still "a file" between which and its
            # neighbours the gaps are listed, i.e. the run is split at its start sector (property silent; the total and
            # the set of unallocated sectors are the same under both readings)
            cuts = sorted(set(st for st, ln in files if ln == 0))
            split = []
            for a, n in exp['free_runs']:
                pts = [a] + [c for c in cuts if a < c < a + n] + [a + n]
                split += [pts[i + 1] - pts[i] for i in range(len(pts) - 1)]
            if (sorted(gaps) != want and sorted(gaps) != sorted(split)) or tot != exp['free_total'] or tot != sum(gaps):
                bump(res, 'space-bad')
                cls = 'zero-length-file' if zl else 'gaps'
                res['viol'].append(('%s:space:%s' % (sig, cls), '%s: space lists gaps %s total %d; expected gaps %s total %d' % (
                    note, sorted(gaps), tot, want, exp['free_total'])))
            else:
                bump(res, 'space-ok')
        except render.ParseError as e:
            res['viol'].append((sig + ':space:parse', str(e)))
    if whole is None:
        return exp
    return exp


def check_surface(res, d, fname, kind, drive, nsect_surface, owner_abs, labels, sig, note, img):
    """sector-map and extract-unused of the whole surface. owner_abs: {abs sector: label}"""
    zl = note.find('zero') >= 0
    r = dfsrun.dfs(BIN, ['--file', fname, 'sector-map', str(drive)], d)
    res['n'] += 1
    mapped = None
    if r.status() != 'exit0':
        res['viol'].append((sig + ':sector-map:failed:' + r.status(), '%s: %r' % (note, r.err[:120])))
    else:
        try:
            owners = render.parse_sector_map(r.out)
            want = [owner_abs.get(s, b'-') for s in range(nsect_surface)]
            if owners != want:
                k = next((i for i in range(min(len(owners), len(want))) if owners[i] != want[i]), min(len(owners), len(want)))
                bump(res, 'map-bad')
                cls = 'length' if len(owners) != len(want) else ('zero-length-file' if zl else 'owner')
                res['viol'].append(('%s:sector-map:%s' % (sig, cls), '%s: sector %d labelled %r, expected %r (%d sectors listed, %d expected)' % (
                    note, k, owners[k] if k < len(owners) else None, want[k] if k < len(want) else None, len(owners), len(want))))
            else:
                bump(res, 'map-ok')
            mapped = owners
        except render.ParseError as e:
            res['viol'].append((sig + ':sector-map:parse', str(e)))
    od = os.path.join(d, 'out')
    os.makedirs(od, exist_ok=True)
    for x in os.listdir(od):
        os.unlink(os.path.join(od, x))
    r = dfsrun.dfs(BIN, ['--file', fname, '--drive', str(drive), 'extract-unused', 'out'], d)
    res['n'] += 1
    if r.status() != 'exit0':
        res['viol'].append((sig + ':extract-unused:failed:' + r.status(), '%s: %r' % (note, r.err[:120])))
        return
    tree = dfsrun.read_tree(od)
    runs = []
    s = 0
    while s < nsect_surface:
        if s in owner_abs:
            s += 1
            continue
        e = s
        while e < nsect_surface and e not in owner_abs:
            e += 1
        runs.append((s, e))
        s = e
    want = {'unused_%03X.bin' % a: img[a * 256:b * 256] for a, b in runs}
    if tree != want:
        bump(res, 'unused-bad')
        cls = 'zero-length-file' if zl else ('names' if set(tree) != set(want) else 'content')
        res['viol'].append(('%s:extract-unused:%s' % (sig, cls), '%s: wrote %s, expected %s' % (note, sorted(tree)[:6], sorted(want)[:6])))
    else:
        bump(res, 'unused-ok')
    # agreement with sector-map as printed
    if mapped is not None:
        unowned = [i for i, o in enumerate(mapped) if o == b'-']
        covered = []
        for nm in tree:
            try:
                a = int(nm[7:10], 16)
            except ValueError:
                continue
            covered += list(range(a, a + len(tree[nm]) // 256))
        if sorted(covered) != unowned:
            res['viol'].append((sig + ':extract-unused-vs-sector-map', '%s: sector-map shows %d unowned sectors, extract-unused wrote %d' % (
                note, len(unowned), len(covered))))


def label(kind, vol, dirc, name, multi):
    s = b''
    if multi:
        s += b':' + vol.encode() + b'.'
    return s + dirc + b'.' + name


def w_layout(case):
    res = mkres()
    try:
        kind, total, tracks, spt = case['kind'], case['total'], case['tracks'], case['spt']
        d = run.fresh_dir('c14')
        sig = 'C14:%s%s' % (kind, case.get('sig_extra', ''))
        if kind in ('acorn', 'watford'):
            files1 = case['files']              # [(start, length)] catalogue order (descending start)
            files2 = case.get('files2', [])
            ents1 = [disc.Entry(b'A%d' % i, b'$', False, 0, 0, ln, st) for i, (st, ln) in enumerate(files1)]
            ents2 = [disc.Entry(b'B%d' % i, b'$', False, 0, 0, ln, st) for i, (st, ln) in enumerate(files2)]
            vol = disc.Volume(ents1, b'LAYOUT', 0, 0, total, ents2 if kind == 'watford' else None)
            nsurf = tracks * spt
            img = disc.acorn_surface(vol, nsurf, b'L', watford=(kind == 'watford'))
            ext = 'ssd' if spt == 10 else 'sdd'
            fname = 'img.' + ext
            dfsrun.write(d, fname, img)
            allf = files1 + files2
            zl = any(ln == 0 for _, ln in allf)
            note = '%s total=%d files=%s%s%s' % (kind, total, files1, (' second-catalogue=%s' % files2) if kind == 'watford' else '',
                                                 ' (zero-length file)' if zl else '')
            half = ''
            if kind == 'watford':
                half = ':cat2-empty' if not files2 and files1 else (':cat1-empty' if files2 and not files1 else '')
            check_volume(res, d, fname, kind, 0, None, total, allf, None, 62 if kind == 'watford' else 31, sig + half, note, spt)
            catsec = 4 if kind == 'watford' else 2
            owner = {s: b'catalog' for s in range(catsec)}
            for e in ents1 + ents2:
                for s in range(e.start, e.start + nsec(e.length)):
                    owner.setdefault(s, e.dir + b'.' + e.name)
            check_surface(res, d, fname, kind, 0, total, owner, None, sig + half, note, img)
        else:
            # Opus: volumes {letter: (track, [(start, length)])}
            vols = {}
            for L, (trk, files) in case['vols'].items():
                vols[L] = (trk, disc.Volume([disc.Entry(b'%s%d' % (L.encode(), i), b'$', False, 0, 0, ln, st)
                                             for i, (st, ln) in enumerate(files)], b'V' + L.encode(), 0, 0, case['voltotal'].get(L)))
            img, ext = disc.opus_surface(vols, tracks, b'L')
            fname = 'img.sdd'
            dfsrun.write(d, fname, img)
            owner = {16: b'disc-cat', 17: b'reserved'}
            multi = len(vols) > 1
            for i, L in enumerate('ABCDEFGH'):
                if L not in vols:
                    continue
                owner[2 * i] = owner[2 * i + 1] = b'*CAT:0' + L.encode()
                origin, length = ext[L]
                files = case['vols'][L][1]
                vt = case['voltotal'].get(L) or length
                zl = any(ln == 0 for _, ln in files)
                note = 'opus volume %s (track %d, total %d) files=%s%s' % (L, vols[L][0], vt, files, ' (zero-length file)' if zl else '')
                check_volume(res, d, fname, 'opus', 0, L, vt, files, None, 31, sig, note, 18)
                for e in vols[L][1].entries:
                    for s in range(e.start, e.start + nsec(e.length)):
                        owner.setdefault(origin + s, label('opus', L, e.dir, e.name, multi))
            zl_any = any(ln == 0 for L in case['vols'] for _, ln in case['vols'][L][1])
            check_surface(res, d, fname, 'opus', 0, tracks * 18, owner, None, sig, 'opus disc %s%s' % (
                {L: v[1] for L, v in case['vols'].items()}, ' (zero-length file)' if zl_any else ''), img)
        res['nt'].append(repr(sorted(case.items())))
        if res['viol']:
            res['case'] = case
    except Exception:
        import traceback
        res['viol'].append(('HARNESS', traceback.format_exc()))
        res['case'] = case
    return res


worker = w_layout
LENS = {0: [0], 1: [1, 256], 2: [257]}


def expand(lay):
    """layout [(start, nsect)] ascending -> all byte-length choices, returned in catalogue (descending) order"""
    for combo in itertools.product(*[LENS[n] for _, n in lay]):
        files = [(st, ln) for (st, n), ln in zip(lay, combo)]
        files.reverse()
        yield files


def fam_acorn(tier):
    """all non-overlapping layouts of <=3 (quick) / <=4 files with lengths {0,1,256,257} on an Acorn disc of 11 (quick) / 12 sectors"""
    T = 11 if tier == 'quick' else 12
    k = 3 if tier == 'quick' else 4
    for lay in disc.layouts(2, T, [0, 1, 2], k):
        # zero-length entries may also sit exactly at the end of the disc
        for files in expand(lay):
            yield {'kind': 'acorn', 'total': T, 'tracks': 40, 'spt': 10, 'files': files}
    for st in range(2, T + 1):
        yield {'kind': 'acorn', 'total': T, 'tracks': 40, 'spt': 10, 'files': [(st, 0)]}


def fam_ties(tier):
    """a zero-length file that shares its start sector with a non-empty file (what DFS produces when an empty file is saved and then another
    file): both catalogue orders of the pair, alone / with a lower file / with a higher file"""
    T = 11
    for st in (2, 5):
        for blen in (1, 256, 300):
            for order in ('empty-first', 'empty-last'):
                pair = [(st, 0), (st, blen)] if order == 'empty-first' else [(st, blen), (st, 0)]
                for extra in ('none', 'lower', 'higher'):
                    if extra == 'lower' and st == 2:
                        continue
                    files = list(pair)
                    if extra == 'lower':
                        files = files + [(2, 256)]
                    if extra == 'higher':
                        files = [(9, 257)] + files
                    yield {'kind': 'acorn', 'total': T, 'tracks': 40, 'spt': 10, 'files': files, 'sig_extra': ':start-tie:' + order}


def fam_watford(tier):
    """Watford: the same layouts on 13 sectors, split over the two catalogue halves in every way consistent with ordering"""
    T = 12 if tier == 'quick' else 14
    k = 3 if tier == 'quick' else 4
    for lay in disc.layouts(4, T, [0, 1, 2], k):
        for files in expand(lay):
            for cut in range(0, len(files) + 1):
                yield {'kind': 'watford', 'total': T, 'tracks': 40, 'spt': 10, 'files': files[cut:], 'files2': files[:cut]}


def fam_opus(tier):
    """Opus: two volumes of one track; all layouts of <=2 files per volume"""
    lays = []
    for lay in disc.layouts(0, 18, [0, 1, 2], 2):
        if all(st in (0, 1, 2, 9, 15, 16, 17) for st, _ in lay):
            lays.append(lay)
    if tier == 'quick':
        lays = lays[::3]
    for la in lays:
        for fa in expand(la):
            for lb in lays[::7] if tier == 'quick' else lays[::3]:
                fb = next(expand(lb))
                yield {'kind': 'opus', 'total': 0, 'tracks': 40, 'spt': 18, 'vols': {'A': (1, fa), 'B': (2, fb)},
                       'voltotal': {'A': 18, 'B': 18}}
    # single volume and three volumes
    yield {'kind': 'opus', 'total': 0, 'tracks': 40, 'spt': 18, 'vols': {'A': (1, [(20, 300), (0, 256)])}, 'voltotal': {'A': 702}}
    yield {'kind': 'opus', 'total': 0, 'tracks': 40, 'spt': 18, 'vols': {'A': (1, [(3, 300)]), 'B': (4, []), 'C': (10, [(100, 1), (0, 5000)])},
           'voltotal': {}}
    # discs whose first volume slot is unused (sectors 0/1 belong to nobody): the tool mounts them, so the surface-wide
    # commands must account for every sector including sector 0
    yield {'kind': 'opus', 'total': 0, 'tracks': 40, 'spt': 18, 'vols': {'B': (1, [(3, 300)]), 'D': (5, [(0, 256)])}, 'voltotal': {}, 'sig_extra': ':no-volume-A'}
    yield {'kind': 'opus', 'total': 0, 'tracks': 40, 'spt': 18, 'vols': {'H': (2, [(10, 700)])}, 'voltotal': {}, 'sig_extra': ':no-volume-A'}
    yield {'kind': 'opus', 'total': 0, 'tracks': 40, 'spt': 18, 'vols': {'B': (1, [])}, 'voltotal': {}, 'sig_extra': ':no-volume-A'}
    yield {'kind': 'opus', 'total': 0, 'tracks': 40, 'spt': 18, 'vols': {'A': (1, [(3, 300)]), 'C': (3, [(0, 256)]), 'H': (9, [])}, 'voltotal': {}, 'sig_extra': ':gaps-in-volume-table'}


def fam_boundary(tier):
    """boundary layouts on totals {3,4,5,400,800,1023}: gap of every kind before the first / after the last file, on 10-, 16- and 18-sector geometries"""
    for total, tracks, spt in ((3, 40, 10), (4, 40, 10), (5, 40, 10), (400, 40, 10), (800, 80, 10), (1023, 80, 18), (720, 40, 18),
                               (640, 40, 16), (560, 35, 16), (350, 35, 10), (630, 35, 18)):
        for kind in ('acorn', 'watford'):
            first = 2 if kind == 'acorn' else 4
            if total <= first:
                continue
            opts = [[]]
            opts.append([(first, 1)])
            opts.append([(total - 1, 256)])
            opts.append([(first, (total - first) * 256)])
            if total - first >= 4:
                opts.append([(total - 2, 300), (first, 257)])
                opts.append([(total - 2, 512), (first + 1, 1)])
                opts.append([(total - 1, 1), (first + 2, 256), (first, 512)])
                opts.append([(total // 2, 256 * (total - total // 2))])
                opts.append([(total // 2, 256), (first, 256 * (total // 2 - first))])
            for files in opts:
                if kind == 'watford':
                    for cut in range(len(files) + 1):
                        yield {'kind': kind, 'total': total, 'tracks': tracks, 'spt': spt, 'files': files[cut:], 'files2': files[:cut]}
                else:
                    yield {'kind': kind, 'total': total, 'tracks': tracks, 'spt': spt, 'files': files}


def fam_counts(tier):
    """31 / 62 files (catalogue full), files adjacent"""
    for kind, n in (('acorn', 31), ('acorn', 30), ('watford', 62), ('watford', 61), ('watford', 31), ('watford', 32)):
        first = 2 if kind == 'acorn' else 4
        files = [(first + 2 * i, 257 if i % 2 else 256) for i in range(n)]
        files.reverse()
        if kind == 'acorn':
            yield {'kind': kind, 'total': 400, 'tracks': 40, 'spt': 10, 'files': files}
        else:
            k2 = max(0, n - 31)
            for cut in sorted(set([k2, min(31, n)])):
                yield {'kind': kind, 'total': 400, 'tracks': 40, 'spt': 10, 'files': files[cut:], 'files2': files[:cut]}


FAMILIES = [('Z-empty-file-sharing-a-start-sector', fam_ties), ('B-boundary-totals-geometries', fam_boundary), ('N-full-catalogues', fam_counts), ('O-opus-volumes', fam_opus),
            ('A-acorn-all-layouts', fam_acorn), ('W-watford-all-layouts-splits', fam_watford)]


def main(tier, seed):
    ctx = core.Ctx(PID, tier, 'exploration', seed, quick_s=240, thorough_s=2700)
    ctx.rule = ('Every layout is a list of non-overlapping (start, length) extents generated exhaustively for a tiny disc '
                '(sector counts {0,1,2}, byte lengths {0,1,256,257}); free / space / sector-map / extract-unused are run on '
                'the image and compared with quantities computed from the layout alone (highest occupied sector, maximal '
                'free runs as a multiset, per-sector owner, unowned runs and their bytes), and with each other. '
                'Non-trivial = every distinct layout.')
    ctx.assumptions = ['a zero-length file occupies no sector', 'Opus: "used" is asserted only when a file ends beyond sector 1']
    ctx.explore(FAMILIES, worker, tier, chunksize=4)
    ctx.samples = [{'family': 'W', 'total': 12, 'first_catalogue': [[4, 257]], 'second_catalogue': [[8, 0], [9, 256]]},
                   {'family': 'A', 'total': 11, 'files': [[9, 256], [5, 0], [2, 257]]}]
    return ctx.finish()


def replay(rec):
    res = worker(rec['case'])
    for sig, text in res['viol']:
        print('replayed violation:', sig, text[:300])
    if any(s == rec['signature'] for s, _ in res['viol']):
        print('VIOLATION property=%s replay=(replayed)' % PID)
        return 1
    print('no violation on replay')
    return 0
