"""C09 — truncated / ill-formed programs are rejected and nothing is invented.
Exploration over inputs x histories: every proper non-empty prefix and every single-byte framing
corruption of all programs of <=3 lines over 6 line shapes, every unassigned token per dialect, and
all sequences of 1..4 input files (valid / truncated / empty / scrub) in one process."""
import os, itertools, subprocess
from lib import core, run, dfsrun, mcb, build, basic_ref as R

VARIANTS = ['plain', 'san']
PID = 'C09'

# line shapes: equal-length neighbours occur (S1/S2/S5 have the same length) so that a stale line buffer
# would pass the terminator test
SHAPE_BODIES = [b'\xf1"HELLO"', b'\xf1"WORLD"', b'\xf4', b'', b'\xe5' + R.encode_linenum(10), b'A=1:B=22']


def mkres():
    return {'n': 0, 'out': {}, 'viol': [], 'nt': [], 'case': None}


def bump(res, k):
    res['out'][k] = res['out'].get(k, 0) + 1


def one(variant, dialect, listo, data):
    """decode one file in a fresh process -> (ret, stdout, stderr_len, crash)"""
    results, complete, r = mcb.execute(variant, [(dialect, listo, [data])])
    if not complete or not results or not results[0]:
        return None, r
    return results[0][0], r


def w_prefix(case):
    """every proper non-empty prefix of one program, each in a fresh process"""
    res = mkres()
    try:
        dialect, listo = case['dialect'], case['listo']
        lines = [(10 * (i + 1), SHAPE_BODIES[s]) for i, s in enumerate(case['shapes'])]
        prog = R.frame(dialect, lines)
        full, r = one('plain', dialect, listo, prog)
        st, ref = R.classify(dialect, prog, listo)
        res['n'] += 1
        if full is None or full[0] != 0 or st != R.WELL or full[1] != ref:
            res['viol'].append(('C09:prefix:intact-program-not-listed', 'intact program %s: %r (ref %s)' % (
                prog.hex(), full, st)))
            res['case'] = case
            return res
        for k in range(1, len(prog)):
            pre = prog[:k]
            got, r = one('plain', dialect, listo, pre)
            res['n'] += 1
            where = 'marker' if k > len(prog) - (2 if R.CANON[dialect] in R.BIG_ENDIAN else 3) else 'line'
            if got is None:
                res['viol'].append(('C09:prefix:crash', 'prefix %s: %s %r' % (pre.hex(), r.status(), r.err[-300:])))
                continue
            ret, out, el, eh = got
            if ret == 0:
                bump(res, 'accepted')
                res['viol'].append(('C09:prefix:%s:truncated-accepted:%s' % (endian(dialect), where),
                                    'dialect=%s prefix(%d of %d)=%s accepted with exit 0' % (dialect, k, len(prog), pre.hex())))
            elif el == 0:
                bump(res, 'silent')
                res['viol'].append(('C09:prefix:%s:no-diagnostic' % endian(dialect), 'prefix %s' % pre.hex()))
            elif not full[1].startswith(out):
                bump(res, 'invented')
                res['viol'].append(('C09:prefix:%s:invented-text:%s' % (endian(dialect), where),
                                    'dialect=%s prefix(%d of %d)=%s printed %r which is not a prefix of the intact listing %r' % (
                                        dialect, k, len(prog), pre.hex(), out[-60:], full[1][:80])))
            else:
                bump(res, 'rejected-prefix-ok')
            res['nt'].append((R.CANON[dialect], pre))
        if res['viol']:
            res['case'] = case
    except Exception:
        import traceback
        res['viol'].append(('HARNESS', traceback.format_exc()))
        res['case'] = case
    return res


def run_channel(d, dialect, listo, data, chan):
    """the real binary reading `data` through one input channel: a named file, `-` with stdin redirected from a
    (seekable) file, `-` with stdin a (non-seekable) pipe"""
    exe = build.exe('plain', 'bbcbasic_to_text')
    opts = ['--dialect', dialect, '--listo', str(listo)]
    if chan == 'pipe':
        return run.run([exe] + opts + ['-'], stdin=data, cwd=d, timeout=20)
    dfsrun.write(d, 'in.bbc', data)
    if chan == 'file':
        return run.run([exe] + opts + ['in.bbc'], cwd=d, timeout=20)
    with open(os.path.join(d, 'in.bbc'), 'rb') as f:
        e = dict(run.BASE_ENV)
        try:
            p = subprocess.run([exe] + opts + ['-'], stdin=f, stdout=subprocess.PIPE, stderr=subprocess.PIPE, cwd=d, env=e, timeout=20)
        except subprocess.TimeoutExpired as t:
            return run.Result(-1, 0, True, t.stdout or b'', t.stderr or b'')
    rc = p.returncode
    return run.Result(rc if rc >= 0 else -1, -rc if rc < 0 else 0, False, p.stdout or b'', p.stderr)


def w_channel(case):
    """every proper non-empty prefix of one program through the real binary by three input channels"""
    res = mkres()
    try:
        dialect, listo = case['dialect'], case['listo']
        lines = [(10 * (i + 1), SHAPE_BODIES[s]) for i, s in enumerate(case['shapes'])]
        prog = R.frame(dialect, lines)
        st, ref = R.classify(dialect, prog, listo)
        d = run.fresh_dir('c09ch')
        for chan in ('pipe', 'redir', 'file'):
            r = run_channel(d, dialect, listo, prog, chan)
            res['n'] += 1
            if st != R.WELL or r.status() != 'exit0' or r.out != ref:
                res['viol'].append(('C09:channel:%s:intact-program-not-listed' % chan, 'intact program %s via %s: %s' % (prog.hex(), chan, r.status())))
                continue
            for k in range(1, len(prog)):
                pre = prog[:k]
                g = run_channel(d, dialect, listo, pre, chan)
                res['n'] += 1
                where = 'marker' if k > len(prog) - (2 if R.CANON[dialect] in R.BIG_ENDIAN else 3) else 'line'
                sig = 'C09:channel:%s:%s:' % (chan, endian(dialect))
                if g.sig or g.timeout or g.exit not in (0, 1):
                    res['viol'].append((sig + 'crash', 'prefix %s: %s %r' % (pre.hex(), g.status(), g.err[-200:])))
                elif g.exit == 0:
                    bump(res, 'accepted')
                    res['viol'].append((sig + 'truncated-accepted:' + where, 'dialect=%s prefix(%d of %d)=%s read via %s accepted with exit 0' % (
                        dialect, k, len(prog), pre.hex(), chan)))
                elif not g.err.strip():
                    res['viol'].append((sig + 'no-diagnostic', 'prefix %s via %s' % (pre.hex(), chan)))
                elif not ref.startswith(g.out):
                    res['viol'].append((sig + 'invented-text:' + where, 'prefix %s via %s printed %r' % (pre.hex(), chan, g.out[-60:])))
                else:
                    bump(res, 'rejected-prefix-ok')
                res['nt'].append((R.CANON[dialect], pre, chan))
        if res['viol']:
            res['case'] = case
    except Exception:
        import traceback
        res['viol'].append(('HARNESS', traceback.format_exc()))
        res['case'] = case
    return res


def endian(dialect):
    return 'big' if R.CANON[dialect] in R.BIG_ENDIAN else 'little'


def framing_positions(dialect, lines):
    """byte offsets of framing bytes (start byte, line number, length, terminator, end marker) -> label"""
    pos = {}
    i = 0
    big = R.CANON[dialect] in R.BIG_ENDIAN
    for num, body in lines:
        if big:
            pos[i] = 'start'
            pos[i + 1] = 'hi'
            pos[i + 2] = 'lo'
            pos[i + 3] = 'len'
            i += 4 + len(body)
        else:
            pos[i] = 'len'
            pos[i + 1] = 'lo'
            pos[i + 2] = 'hi'
            pos[i + 3 + len(body)] = 'term'
            i += 4 + len(body)
    if big:
        pos[i] = 'eof0'
        pos[i + 1] = 'eof1'
    else:
        pos[i] = 'eof0'
        pos[i + 1] = 'eof1'
        pos[i + 2] = 'eof2'
    return pos


def w_corrupt(case):
    """every single-byte corruption (all 256 values) of every framing byte of one program; many files per process
    are avoided: each corrupted file runs in a fresh process group of one record"""
    res = mkres()
    try:
        dialect, listo = case['dialect'], case['listo']
        lines = [(10 * (i + 1), SHAPE_BODIES[s]) for i, s in enumerate(case['shapes'])]
        prog = R.frame(dialect, lines)
        pos = framing_positions(dialect, lines)
        recs = []
        meta = []
        for p, label in sorted(pos.items()):
            for v in range(256):
                if v == prog[p]:
                    continue
                data = prog[:p] + bytes([v]) + prog[p + 1:]
                recs.append((dialect, listo, [data]))
                meta.append((label, p, v))
        # each record in its own process would cost 1 ms x 10^4; the static line buffer makes results
        # history-dependent, so group by framing position (256 files per process, in value order) and replay
        # any violating file alone before reporting
        for idx, rec, results, crash in mcb.run_all('plain', recs):
            label, p, v = meta[idx]
            data = rec[2][0]
            res['n'] += 1
            if crash:
                res['viol'].append(('C09:corrupt:crash', '%s %s' % (data.hex(), crash[0])))
                continue
            st, ref = R.classify(dialect, data, listo)
            ret, out, el, eh = results[0]
            if st == R.ILL:
                if ret == 0:
                    # confirm alone in a fresh process
                    alone, r = one('plain', dialect, listo, data)
                    if alone is not None and alone[0] == 0:
                        bump(res, 'ill-accepted')
                        res['viol'].append(('C09:corrupt:%s:%s:ill-formed-accepted' % (endian(dialect), label),
                                            'dialect=%s byte %d (%s) := 0x%02X -> %s accepted; stdout %r' % (
                                                dialect, p, label, v, data.hex(), alone[1][:80])))
                    else:
                        bump(res, 'ill-accepted-history-only')
                        res['viol'].append(('C09:corrupt:%s:%s:ill-formed-accepted-after-history' % (endian(dialect), label),
                                            'dialect=%s %s accepted only after earlier files in the same process' % (
                                                dialect, data.hex())))
                elif el == 0:
                    res['viol'].append(('C09:corrupt:no-diagnostic', data.hex()))
                else:
                    bump(res, 'ill-rejected')
            elif st == R.WELL:
                if ret != 0 or out != ref:
                    bump(res, 'well-mismatch')
                    res['viol'].append(('C09:corrupt:%s:%s:wellformed-variant-mislisted' % (endian(dialect), label),
                                        'dialect=%s %s ret=%d out=%r ref=%r' % (dialect, data.hex(), ret, out[:60], ref[:60])))
                else:
                    bump(res, 'well-listed')
            else:
                bump(res, 'out-of-domain')
            res['nt'].append((R.CANON[dialect], data))
        if res['viol']:
            res['case'] = case
    except Exception:
        import traceback
        res['viol'].append(('HARNESS', traceback.format_exc()))
        res['case'] = case
    return res


def w_tokens(case):
    """token faults: every byte / extension second byte the documentation does not assign, operands cut off by end of line"""
    res = mkres()
    try:
        dialect, listo = case['dialect'], case['listo']
        t = R.Tables(dialect)
        bodies = []
        for b in range(256):
            bodies.append(bytes([b]))
            bodies.append(b'A' + bytes([b]))
            for intro in (0xC6, 0xC7, 0xC8):
                bodies.append(bytes([intro, b]))
        for cut in (b'\x8d', b'\x8d\x54', b'\x8d\x54\x4a', b'\xc6', b'\xc7', b'\xc8', b'A\x8d\x54\x4a', b'\xe5\x8d',
                    b'\x18', b'\x18\x01', b'\x18\x01\x02', b'\x1f\x01\x02'):
            bodies.append(cut)
        recs, meta = [], []
        for body in bodies:
            st, _, _ = R.decode_line_body(t, body)
            if st != R.ILL:
                continue
            for pre in ([], [(10, b'\xf1"OK"')]):
                prog = R.frame(dialect, pre + [(20, body)])
                recs.append((dialect, listo, [prog]))
                meta.append((body, len(pre)))
        for idx, rec, results, crash in mcb.run_all('san', recs):
            body, npre = meta[idx]
            res['n'] += 1
            if crash:
                res['viol'].append(('C09:token:crash:%s' % crash[1], '%s %s' % (rec[2][0].hex(), crash[3][-300:])))
                continue
            ret, out, el, eh = results[0]
            if ret == 0:
                bump(res, 'accepted')
                cls = 'ext' if body[0] in (0xC6, 0xC7, 0xC8) and len(body) == 2 else (
                    'cutoff' if body[-1] in (0x8D, 0xC6, 0xC7, 0xC8, 0x54, 0x4A) else 'base:0x%02X' % body[-1])
                res['viol'].append(('C09:token:%s:invalid-token-accepted:%s' % (R.CANON[dialect], cls),
                                    'dialect=%s line body %s listed as %r' % (dialect, body.hex(), out[:60])))
            elif el == 0:
                res['viol'].append(('C09:token:no-diagnostic', body.hex()))
            else:
                bump(res, 'rejected')
            res['nt'].append((R.CANON[dialect], body, npre))
        if res['viol']:
            res['case'] = case
    except Exception:
        import traceback
        res['viol'].append(('HARNESS', traceback.format_exc()))
        res['case'] = case
    return res


CUTOFFS = [b'\x8d', b'\x8d\x54', b'\x8d\x54\x4a', b'\xc6', b'\xc7', b'\xc8', b'A\x8d\x54\x4a', b'\xe5\x8d', b'\xf1"A":\xc8', b'\xf1"A":\xc6',
           b'\xf1"A":\xc7', b'\xf1"AB":\x8d']
SCRUB = [0x98, 0x8e, 0x90, 0x41, 0x54, 0xff]


def w_stale(case):
    """a line cut off in the middle of a multi-byte token, preceded (same file, or earlier file) by a maximal line filled
    with byte X: what is listed for the cut-off line must not depend on X (nothing may be read from beyond the line)"""
    res = mkres()
    try:
        dialect, listo = case['dialect'], case['listo']
        for body in CUTOFFS:
            outs = {}
            for X in SCRUB:
                scrub = b'\xf4' + bytes([X]) * 250          # REM + filler: a valid line, never an unterminated string
                same_file = R.frame(dialect, [(10, scrub), (20, body), (30, b'\xf1"Z"')])
                got, r = one('plain', dialect, listo, same_file)
                res['n'] += 1
                if got is None:
                    res['viol'].append(('C09:stale:crash', '%s %s' % (body.hex(), r.status())))
                    continue
                # drop the listing of the scrub line itself (first output line)
                rest = got[1].split(b'\n', 1)[1] if b'\n' in got[1] else got[1]
                outs[X] = (got[0], rest, got[2] > 0)
                # earlier *file* variant
                results, complete, rr = mcb.execute('plain', [(dialect, listo, [R.frame(dialect, [(10, scrub)]), R.frame(dialect, [(20, body), (30, b'\xf1"Z"')])])])
                res['n'] += 1
                if complete:
                    outs[('file', X)] = (results[0][1][0], results[0][1][1], results[0][1][2] > 0)
            vals = set(outs.values())
            if len(vals) > 1:
                bump(res, 'depends-on-stale-bytes')
                a, b = list(vals)[:2]
                res['viol'].append(('C09:stale:%s:cut-off-token-reads-beyond-line' % R.CANON[dialect],
                                    'dialect=%s line body %s listed differently depending on the bytes an earlier line left in the buffer: %r vs %r' % (
                                        dialect, body.hex(), a[1][:60], b[1][:60])))
            else:
                bump(res, 'independent')
            res['nt'].append((R.CANON[dialect], body))
        if res['viol']:
            res['case'] = case
    except Exception:
        import traceback
        res['viol'].append(('HARNESS', traceback.format_exc()))
        res['case'] = case
    return res


def fam_stale(tier):
    """cut-off multi-byte tokens at the end of a line after a maximal line (same file / earlier file) filled with each of 6 byte values, per dialect name"""
    for dialect in R.DIALECT_NAMES:
        for listo in ((7,) if tier == 'quick' else (0, 7)):
            yield {'w': 'stale', 'dialect': dialect, 'listo': listo}


def history_files(dialect):
    # line 2 is longer than line 1, so within one file the line buffer holds nothing useful beyond line 1's length
    # when line 2 is cut short; only an *earlier file* with a line of the same length can make a stale byte pass
    # for the terminator.
    A = R.frame(dialect, [(10, b'\xf1"HI"'), (20, b'\xf1"AAAAAAAAAA"'), (30, b'\xe3I=1\xb82')])
    B = R.frame(dialect, [(10, b'\xf1"YO"'), (20, b'\xf1"BBBBBBBBBB"'), (30, b'\xf5:\xf5:\xf5')])
    scrub = R.frame(dialect, [(1, b'"' + b'\x0d' * 249 + b'"'), (2, b'"' * 251)])
    big = R.CANON[dialect] in R.BIG_ENDIAN
    cut = (4 + 5) + 4 + 4 if big else (3 + 5 + 1) + 3 + 4
    return {'A': A, 'B': B, 'tA': A[:cut], 'tB': B[:cut], 'E': b'', 'S': scrub}


def w_history(case):
    """one sequence of files in one process: each file's listing must equal its listing alone; exit = OR"""
    res = mkres()
    try:
        dialect, listo, seq = case['dialect'], case['listo'], case['seq']
        fs = history_files(dialect)
        files = [fs[k] for k in seq]
        results, complete, r = mcb.execute('plain', [(dialect, listo, files)])
        res['n'] += 1
        if not complete:
            res['viol'].append(('C09:history:crash', '%s %s' % (seq, r.status())))
        else:
            for k, got in zip(seq, results[0]):
                alone = case['alone'][k]
                if (got[0], got[1].hex(), got[2] > 0) != (alone[0], alone[1], alone[2]):
                    bump(res, 'differs')
                    res['viol'].append(('C09:history:%s:file-%s-depends-on-history' % (endian(dialect), k),
                                        'dialect=%s sequence %s: file %s gave ret=%d out=%r, alone ret=%d out=%r' % (
                                            dialect, seq, k, got[0], got[1][-50:], alone[0], bytes.fromhex(alone[1])[-50:])))
                    break
            else:
                bump(res, 'independent')
        # cross-check on the real binary with the files on one command line (exit status = OR, stdout = concatenation)
        if case.get('cli'):
            d = run.fresh_dir('c09')
            names = []
            for i, k in enumerate(seq):
                names.append(dfsrun.write(d, 'f%d_%s.bbc' % (i, k), fs[k]))
            rr = dfsrun.basic('plain', ['--dialect', dialect, '--listo', str(listo)] + names, cwd=d)
            res['n'] += 1
            want_out = b''.join(bytes.fromhex(case['alone'][k][1]) for k in seq)
            want_exit = 1 if any(case['alone'][k][0] for k in seq) else 0
            if rr.out != want_out or rr.exit != want_exit or rr.sig:
                bump(res, 'cli-differs')
                res['viol'].append(('C09:history:%s:cli' % endian(dialect), 'dialect=%s files %s: exit %s want %d; stdout %r want %r' % (
                    dialect, seq, rr.status(), want_exit, rr.out[-60:], want_out[-60:])))
            elif want_exit and not rr.err:
                res['viol'].append(('C09:history:cli:no-diagnostic', str(seq)))
            else:
                bump(res, 'cli-ok')
        res['nt'].append((R.CANON[dialect], tuple(seq), listo))
        if res['viol']:
            res['case'] = case
    except Exception:
        import traceback
        res['viol'].append(('HARNESS', traceback.format_exc()))
        res['case'] = case
    return res


def worker(case):
    return {'prefix': w_prefix, 'corrupt': w_corrupt, 'tokens': w_tokens, 'history': w_history, 'stale': w_stale, 'channel': w_channel}[case['w']](case)


def shape_seqs(maxlen):
    for k in range(1, maxlen + 1):
        for s in itertools.product(range(len(SHAPE_BODIES)), repeat=k):
            yield list(s)


def fam_prefix(tier):
    """all programs of <=3 lines over 6 line shapes, both framings: every proper non-empty prefix"""
    dialects = ['6502', 'Z80'] if tier == 'quick' else ['6502', 'Z80', 'ARM', 'Windows', 'PDP11', 'Mac']
    for dialect in dialects:
        for s in shape_seqs(3 if tier == 'thorough' or dialect in ('6502', 'Z80') else 2):
            yield {'w': 'prefix', 'dialect': dialect, 'listo': 7 if len(s) % 2 else 0, 'shapes': s}


def fam_channel(tier):
    """programs of <=2 (thorough: <=3) lines: every prefix through the real binary as named file, `-` from a file, `-` from a pipe"""
    dialects = ['6502', 'Z80'] if tier == 'quick' else ['6502', 'Z80', 'ARM', 'Windows', 'PDP11', 'Mac']
    for dialect in dialects:
        for s in shape_seqs(2 if tier == 'quick' or dialect not in ('6502', 'Z80') else 3):
            yield {'w': 'channel', 'dialect': dialect, 'listo': 7 if len(s) % 2 else 0, 'shapes': s}


def fam_corrupt(tier):
    """every single-byte corruption (255 values) of every framing byte"""
    dialects = ['6502', 'Z80'] if tier == 'quick' else ['6502', 'Z80', 'ARM', 'Windows']
    for dialect in dialects:
        for s in shape_seqs(2 if tier == 'quick' else 3):
            yield {'w': 'corrupt', 'dialect': dialect, 'listo': 7, 'shapes': s}


def fam_tokens(tier):
    """every unassigned token / extension code per dialect name, operands cut off by end of line, Windows fast variables"""
    for dialect in R.DIALECT_NAMES:
        for listo in (0, 7):
            yield {'w': 'tokens', 'dialect': dialect, 'listo': listo}


def fam_history(tier):
    """all sequences of 1..4 files over {A, B, truncated A, truncated B, empty, scrub}, in every order"""
    keys = ['A', 'B', 'tA', 'tB', 'E', 'S']
    dialects = ['6502', 'Z80'] if tier == 'quick' else ['6502', 'Z80', 'ARM', 'Windows']
    for dialect in dialects:
        for listo in (7,) if tier == 'quick' else (0, 7):
            fs = history_files(dialect)
            alone = {}
            for k in keys:
                got, r = one('plain', dialect, listo, fs[k])
                alone[k] = (got[0], got[1].hex(), got[2] > 0)
            n = 0
            for ln in range(1, 5):
                for seq in itertools.product(keys, repeat=ln):
                    n += 1
                    yield {'w': 'history', 'dialect': dialect, 'listo': listo, 'seq': list(seq), 'alone': alone,
                           'cli': (n % 7 == 0) or ln <= 2}


FAMILIES = [('T-token-faults', fam_tokens), ('S-stale-buffer-independence', fam_stale), ('H-file-histories', fam_history), ('P-prefixes', fam_prefix),
            ('F-framing-corruption', fam_corrupt), ('C-input-channels', fam_channel)]


def main(tier, seed):
    ctx = core.Ctx(PID, tier, 'exploration', seed, quick_s=220, thorough_s=2400)
    ctx.rule = ('Programs = all sequences of <=3 lines over 6 line shapes in both framings; for each, every proper '
                'non-empty prefix (fresh process each) must be rejected with a diagnostic and print only a prefix of '
                'the intact listing; every single-byte corruption of every framing byte is classified by the reference '
                'framing parser and must be rejected when ill-formed; every unassigned token must be rejected; every '
                'sequence of 1..4 files in one process must list each file as it lists it alone. Non-trivial = '
                'distinct (dialect, file bytes) / (dialect, file sequence).')
    ctx.assumptions = ['reference framing/token model lib/basic_ref.py from doc/bbcbasic.5',
                       'cases the documentation leaves open (bytes after the end marker, little-endian length 3, empty '
                       'file) are outside the domain']
    ctx.explore(FAMILIES, worker, tier, chunksize=2)
    ctx.samples = [{'family': 'P', 'dialect': 'Z80', 'program_hex': R.frame('Z80', [(10, SHAPE_BODIES[0]), (20, SHAPE_BODIES[1])]).hex(),
                    'prefix_len': 24},
                   {'family': 'H', 'dialect': '6502', 'sequence': ['S', 'tA', 'B', 'A']}]
    return ctx.finish()


def replay(rec):
    res = worker(rec['case'])
    for sig, text in res['viol']:
        print('replayed violation:', sig, text[:400])
    if any(s == rec['signature'] for s, _ in res['viol']):
        print('VIOLATION property=%s replay=(replayed)' % PID)
        return 1
    print('no violation on replay')
    return 0
