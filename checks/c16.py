"""C16 — every attached image gets its own drive number and commands read the right one.
Model checking: (a) explicit-state exploration of the REAL transition function
StorageConfiguration::connect_drives over all attach histories to a depth bound, invariants I1-I4 checked
in every state and each state compared with a reference allocation model; (b) a TLA+ model of the policy
(spec/DriveAlloc.tla) checked by TLC, every reachable model state replayed against the implementation;
(c) addressing through the real binary: for real image files, every drive number k must reach exactly the
surface the model puts there."""
import os, re, subprocess, itertools, shutil, struct
from lib import core, run, dfsrun, mcx, disc, flux, render

VARIANTS = ['san', 'plain']
PID = 'C16'
VERIF = os.path.dirname(os.path.dirname(os.path.abspath(__file__)))


def mkres():
    return {'n': 0, 'out': {}, 'viol': [], 'nt': [], 'case': None, 'states': [], 'transitions': 0}


def bump(res, k, n=1):
    res['out'][k] = res['out'].get(k, 0) + n


def opposite(d):
    return d + 2 if d % 4 in (0, 1) else d - 2


def ref_alloc(history, limit=1 << 20):
    """reference allocation model -> list (per step) of {drive: (img, surf)}"""
    occ = {}
    out = []
    for img, (k, pol) in enumerate(history):
        if pol == 'F':
            d = 0
            for s in range(k):
                while d in occ:
                    d += 1
                occ[d] = (img, s)
        else:
            n = 0
            while True:
                if all((n + 2 * j) not in occ for j in range(k)) and opposite(n) not in occ:
                    break
                n += 1
            for s in range(k):
                occ[n + 2 * s] = (img, s)
        out.append(dict(occ))
    return out


def invariants(history, states):
    """I1-I4 on the implementation's states; returns list of (name, detail)"""
    bad = []
    prev = {}
    for img, ((k, pol), occ) in enumerate(zip(history, states)):
        mine = sorted((s, d) for d, (i, s) in occ.items() if i == img)
        # I1: each surface exactly one drive, all distinct
        if [s for s, _ in mine] != list(range(k)):
            bad.append(('I1-surface-without-unique-drive', 'image %d (k=%d): surfaces at %s' % (img, k, mine)))
        # I2: earlier attachments unchanged
        for d, v in prev.items():
            if occ.get(d) != v:
                bad.append(('I2-earlier-attachment-moved', 'drive %d was %s now %s' % (d, v, occ.get(d))))
        for d, v in occ.items():
            if v[0] < img and d not in prev:
                bad.append(('I2-earlier-attachment-moved', 'drive %d newly holds earlier image %s' % (d, v)))
        if pol == 'P':
            for s, d in mine:
                o = opposite(d)
                if o in occ and occ[o][0] != img:
                    bad.append(('I3-opposite-side-of-another-image', 'image %d surface %d at drive %d, opposite drive %d held by image %d' % (
                        img, s, d, o, occ[o][0])))
            if k == 2 and len(mine) == 2 and mine[1][1] != mine[0][1] + 2:
                bad.append(('I3-two-sided-not-n-n+2', str(mine)))
        else:
            free_before = [d for d in range(0, max(list(occ) + [0]) + k + 2) if d not in prev]
            if [d for _, d in mine] != free_before[:k]:
                bad.append(('I4-first-not-lowest-free', 'image %d got %s, lowest free were %s' % (img, [d for _, d in mine], free_before[:k])))
        prev = dict(occ)
    return bad


def impl_states(histories, variant='san'):
    """run histories through the real connect_drives (one fresh StorageConfiguration per history)"""
    req = b''.join(mcx.req_alloc([(k, pol, (1 << k) - 1 if k < 31 else 0x7FFFFFFF) for k, pol in h]) for h in histories)
    r = mcx.call(variant, req, timeout=900)
    if r.status() != 'exit0':
        raise RuntimeError('mcx alloc failed: %s %r' % (r.status(), r.err[-400:]))
    rd = mcx.Reader(r.out)
    out = []
    for h in histories:
        states = []
        oks = []
        for _ in h:
            ok = rd.u8()
            n = rd.u32()
            occ = {}
            for _ in range(n):
                d, img, surf, sel = rd.u32(), rd.u32(), rd.u32(), rd.u8()
                occ[d] = (img, surf)
            states.append(occ)
            oks.append(ok)
        out.append((states, oks))
    return out


def w_bfs(case):
    """all extensions of the given prefixes to the depth bound"""
    res = mkres()
    try:
        alphabet = [(k, p) for k in case['kinds'] for p in 'PF']
        prefixes = [tuple(map(tuple, p)) for p in case['prefixes']]
        rest = case['depth'] - len(prefixes[0])
        hists = [p + t for p in prefixes for t in itertools.product(alphabet, repeat=rest)]
        got = impl_states(hists)
        seen = set()
        for h, (states, oks) in zip(hists, got):
            ref = ref_alloc(h)
            res['n'] += 1
            if not all(oks):
                res['viol'].append(('C16:alloc:connect-failed', 'history %s: connect_drives returned false' % (h,)))
                continue
            for name, detail in invariants(h, states):
                bump(res, name)
                res['viol'].append(('C16:alloc:%s' % name, 'history %s: %s' % (h, detail)))
            if states != ref:
                k = next(i for i in range(len(h)) if states[i] != ref[i])
                bump(res, 'differs-from-model')
                res['viol'].append(('C16:alloc:differs-from-reference-model:%s' % h[k][1], 'history %s step %d: implementation %s, model %s' % (
                    h, k, sorted(states[k].items()), sorted(ref[k].items()))))
            else:
                bump(res, 'state-ok')
            for i, occ in enumerate(states):
                canon = tuple(sorted(occ.items()))
                if canon not in seen:
                    seen.add(canon)
            res['transitions'] += len(h)
        res['states'] = [hash(s) for s in seen]
        res['patterns'] = len(set(tuple(sorted(d for d, _ in s)) for s in seen))
        res['nt'].append(('bfs', tuple(prefixes[0]), case['depth']))
        res['ntcount'] = len(hists)
        if res['viol']:
            res['case'] = case
    except Exception:
        import traceback
        res['viol'].append(('HARNESS', traceback.format_exc()))
        res['case'] = case
    return res


# ----------------------------------------------------------------------------- TLC
def run_tlc(kinds, maximages, maxdrive):
    d = run.fresh_dir('tlc')
    shutil.copy(os.path.join(VERIF, 'spec', 'DriveAlloc.tla'), d)
    cfg = open(os.path.join(VERIF, 'spec', 'DriveAlloc.cfg.tmpl')).read()
    cfg = cfg.replace('KINDS', ','.join(str(k) for k in kinds)).replace('MAXIMAGES', str(maximages)).replace('MAXDRIVE', str(maxdrive))
    open(os.path.join(d, 'DriveAlloc.cfg'), 'w').write(cfg)
    p = subprocess.run(['tlc', '-workers', '8', '-metadir', os.path.join(d, 'meta'), '-dump', os.path.join(d, 'states'),
                        'DriveAlloc.tla'], cwd=d, stdout=subprocess.PIPE, stderr=subprocess.STDOUT, timeout=1500)
    out = p.stdout.decode(errors='replace')
    dump = open(os.path.join(d, 'states.dump')).read() if os.path.exists(os.path.join(d, 'states.dump')) else ''
    return p.returncode, out, dump


def parse_dump(dump):
    states = []
    for blk in re.split(r'\nState \d+:\n', '\n' + dump):
        if 'hist' not in blk:
            continue
        occ = {}
        for m in re.finditer(r'(\d+) :> <<(\d+), (\d+)>>', blk):
            d, i, s = int(m.group(1)), int(m.group(2)), int(m.group(3))
            if i:
                occ[d] = (i - 1, s)
        hm = re.search(r'hist = (<<.*>>)\s*$', blk.strip(), re.S)
        hist = tuple((int(a), b) for a, b in re.findall(r'<<(\d+), "([PF])">>', hm.group(1))) if hm else ()
        states.append((hist, occ))
    return states


def w_tlc(case):
    res = mkres()
    try:
        try:
            rc, out, dump = run_tlc(case['kinds'], case['maximages'], case['maxdrive'])
        except subprocess.TimeoutExpired:
            res['incomplete'] = True        # a cap, not a verdict: reported as exhaustive=false for this family
            return res
        m = re.search(r'(\d+) states generated, (\d+) distinct states found', out)
        if rc != 0 or 'No error has been found' not in out or not m:
            res['viol'].append(('C16:tlc:model-invariant-or-run-failed', out[-800:]))
            res['case'] = case
            return res
        states = parse_dump(dump)
        if len(states) != int(m.group(2)):
            res['viol'].append(('HARNESS', 'parsed %d states, TLC reports %s' % (len(states), m.group(2))))
        hists = [h for h, _ in states if h]
        got = impl_states(hists)
        validated = 0
        byh = {h: occ for h, occ in states}
        for h, (impl, oks) in zip(hists, got):
            validated += 1
            if impl[-1] != byh[h]:
                bump(res, 'model-state-differs')
                res['viol'].append(('C16:tlc:model-state-differs-from-implementation:%s' % h[-1][1],
                                    'history %s: TLA+ model occupancy %s, implementation %s' % (h, sorted(byh[h].items()), sorted(impl[-1].items()))))
            else:
                bump(res, 'model-state-validated')
        res['n'] += validated
        res['tlc'] = {'states_generated': int(m.group(1)), 'distinct_states': int(m.group(2)), 'validated': validated,
                      'depth': case['maximages'], 'kinds': case['kinds']}
        res['nt'].append(('tlc', tuple(case['kinds']), case['maximages']))
        res['ntcount'] = validated
        if res['viol']:
            res['case'] = case
    except Exception:
        import traceback
        res['viol'].append(('HARNESS', traceback.format_exc()))
        res['case'] = case
    return res


# ----------------------------------------------------------------------------- addressing through the real binary
def id_surface(img, surf, tracks, spt, total=None):
    ident = b'image %d surface %d' % (img, surf)
    e = disc.Entry(b'ID', b'$', False, 0, 0, len(ident), 2, body=ident)
    # a second file in the LAST sector of the surface (beyond track 0: a wrong stride / side offset / slot offset shows here only)
    tot = total or tracks * spt
    far = disc.Entry(b'FAR', b'$', False, 0, 0, len(ident) + 4, tot - 1, body=ident + b' far')
    return disc.acorn_surface(disc.Volume([far, e], b'I%dS%d' % (img, surf), 0, 0, tot), tracks * spt, b'x'), ident


def make_image_file(d, img, kind):
    """returns (file name, number of surfaces, {surf: ident})"""
    if kind == 'ssd':
        s, ident = id_surface(img, 0, 40, 10)
        dfsrun.write(d, 'img%d.ssd' % img, s)
        return 'img%d.ssd' % img, 1, {0: ident}
    if kind == 'dsd':
        s0, i0 = id_surface(img, 0, 40, 10)
        s1, i1 = id_surface(img, 1, 40, 10)
        dfsrun.write(d, 'img%d.dsd' % img, disc.interleave(s0, s1, 10))
        return 'img%d.dsd' % img, 2, {0: i0, 1: i1}
    if kind == 'ssd2':
        s0, i0 = id_surface(img, 0, 40, 10)
        s1, i1 = id_surface(img, 1, 40, 10)
        dfsrun.write(d, 'img%d.ssd' % img, s0 + s1)
        return 'img%d.ssd' % img, 2, {0: i0, 1: i1}
    if kind in ('hfe1', 'hfe2'):
        n = 1 if kind == 'hfe1' else 2
        surfs, ids = [], {}
        for s in range(n):
            x, ident = id_surface(img, s, 2, 10, total=20)
            surfs.append(x)
            ids[s] = ident
        dfsrun.write(d, 'img%d.hfe' % img, flux.hfe_from_surfaces(surfs, 2, 10, 'FM', 1))
        return 'img%d.hfe' % img, n, ids
    if kind in ('hfe2b0', 'hfe2b1'):
        # two-sided flux image, one side formatted but never written (no catalogue): it still is a surface of the image
        blank_side = int(kind[-1])
        x, ident = id_surface(img, 1 - blank_side, 2, 10, total=20)
        surfs = [x, x]
        surfs[blank_side] = b'\xE5' * (20 * 256)
        dfsrun.write(d, 'img%d.hfe' % img, flux.hfe_from_surfaces(surfs, 2, 10, 'FM', 1))
        return 'img%d.hfe' % img, 2, {1 - blank_side: ident}
    if kind == 'mfm':
        x, ident = id_surface(img, 0, 2, 18, total=36)
        dfsrun.write(d, 'img%d.mfm' % img, flux.hxcmfm_from_surfaces([x], 2, 18))
        return 'img%d.mfm' % img, 1, {0: ident}
    if kind == 'mmb':
        path = os.path.join(d, 'img%d.mmb' % img)
        ids = {}
        with open(path, 'wb') as f:
            f.write(disc.mmb_header({s: 0x0F for s in range(511)}))
            for s in range(511):
                x, ident = id_surface(img, s, 80, 10)
                f.seek(8192 + s * 204800)
                f.write(x[:3 * 256])
                f.seek(8192 + s * 204800 + 799 * 256)
                f.write(x[799 * 256:800 * 256])
                ids[s] = ident
            f.truncate(8192 + 511 * 204800)
        return 'img%d.mmb' % img, 511, ids
    raise ValueError(kind)


def w_address(case):
    res = mkres()
    try:
        d = run.fresh_dir('c16')
        seq = case['seq']            # [(kind, policy)]
        argv = []
        hist = []
        idents = {}
        blank = set()
        cur = 'P'
        for img, (kind, pol) in enumerate(seq):
            fn, n, ids = make_image_file(d, img, kind)
            if pol != cur:
                argv.append('--drive-first' if pol == 'F' else '--drive-physical')
                cur = pol
            argv += ['--file', fn]
            hist.append((n, pol))
            for s, ident in ids.items():
                idents[(img, s)] = ident
            for s in range(n):
                if s not in ids:
                    blank.add((img, s))
        model = ref_alloc(hist)[-1]
        maxd = max(model)
        sig = 'C16:address'
        note = 'images %s' % (seq,)
        # --show-config + show-titles
        r = dfsrun.dfs('plain', argv + ['--show-config', 'show-titles'], d, timeout=120)
        res['n'] += 1
        if r.status() != 'exit0' and not (blank and r.exit == 1 and not r.sig):
            res['viol'].append((sig + ':show-titles-failed', '%s: %s %r' % (note, r.status(), r.err[-200:])))
        else:
            cfg = {}
            for ln in r.err.split(b'\n'):
                m = re.match(rb'^Drive\s+(\d+): (occupied|empty)(.*)$', ln)
                if m:
                    dn = int(m.group(1))
                    if m.group(2) == b'occupied':
                        fm = re.search(rb'img(\d+)\.', m.group(3))
                        sm = re.search(rb'side (\d+)', m.group(3)) or re.search(rb'slot\s+(\d+)', m.group(3))
                        cfg[dn] = (int(fm.group(1)) if fm else -1, int(sm.group(1)) if sm else 0)
            if cfg != model:
                diff = sorted(k for k in set(cfg) | set(model) if cfg.get(k) != model.get(k))[:4]
                res['viol'].append((sig + ':show-config-differs-from-model', '%s: drives %s: --show-config says %s, model %s' % (
                    note, diff, [cfg.get(k) for k in diff], [model.get(k) for k in diff])))
            else:
                bump(res, 'show-config-ok')
            titles = dict(render.parse_show_titles(r.out))
            want = {str(k).encode(): b'I%dS%d' % v for k, v in model.items() if v not in blank}
            if titles != want:
                diff = sorted(k for k in set(titles) | set(want) if titles.get(k) != want.get(k))[:4]
                res['viol'].append((sig + ':show-titles-differs-from-model', '%s: %s' % (note, [(k, titles.get(k), want.get(k)) for k in diff])))
            else:
                bump(res, 'show-titles-ok')
        probe = range(0, maxd + 3) if maxd < 40 else sorted(set(list(range(0, 10)) + list(range(maxd - 6, maxd + 3)) + list(range(500, 520))))
        for k in probe:
            for cmd in (['type', '--binary', ':%d.$.ID' % k], ['--drive', str(k), 'type', '--binary', 'ID'], ['cat', str(k)],
                        ['type', '--binary', ':%d.$.FAR' % k]):
                r = dfsrun.dfs('plain', argv + cmd if cmd[0] != '--drive' else argv + cmd, d, timeout=120)
                res['n'] += 1
                if k in model and model[k] in blank:
                    if r.status() == 'exit0' or r.out:
                        res['viol'].append((sig + ':unformatted-surface-readable', '%s: %r (drive %d is the blank side of image %d) gave %s %r' % (
                            note, cmd, k, model[k][0], r.status(), r.out[:40])))
                    elif not r.err.strip() or r.sig:
                        res['viol'].append((sig + ':empty-drive-no-diagnostic', '%r' % cmd))
                    else:
                        bump(res, 'blank-surface-reported')
                elif k in model:
                    if cmd[0] == 'cat':
                        okk = r.status() == 'exit0' and (b'I%dS%d' % model[k]) in r.out.split(b'\n')[0]
                    else:
                        okk = r.status() == 'exit0' and r.out == idents[model[k]] + (b' far' if cmd[-1].endswith('FAR') else b'')
                    if not okk:
                        bump(res, 'wrong-surface')
                        res['viol'].append((sig + ':drive-reads-wrong-surface', '%s: %r should read image %d surface %d but gave %s %r %r' % (
                            note, cmd, model[k][0], model[k][1], r.status(), r.out[:40], r.err[:80])))
                    else:
                        bump(res, 'right-surface')
                else:
                    if r.status() == 'exit0' or r.out:
                        res['viol'].append((sig + ':empty-drive-readable', '%s: %r (drive %d is empty in the model) gave %s %r' % (note, cmd, k, r.status(), r.out[:40])))
                    elif not r.err.strip() or r.sig:
                        res['viol'].append((sig + ':empty-drive-no-diagnostic', '%r' % cmd))
                    else:
                        bump(res, 'empty-drive-reported')
        res['nt'].append(tuple(map(tuple, seq)))
        if res['viol']:
            res['case'] = case
    except Exception:
        import traceback
        res['viol'].append(('HARNESS', traceback.format_exc()))
        res['case'] = case
    return res


def worker(case):
    return {'bfs': w_bfs, 'tlc': w_tlc, 'address': w_address}[case['w']](case)


KINDS = [1, 2, 3, 5]


def fam_bfs(tier):
    """all attach histories over kinds {1,2,3,5} x {PHYSICAL, FIRST} to depth 5 (quick) / 6 (thorough), plus a 511-surface image at every position of depth-2/3 histories"""
    depth = 5 if tier == 'quick' else 6
    alphabet = [(k, p) for k in KINDS for p in 'PF']
    for dd in range(1, depth):
        yield {'w': 'bfs', 'kinds': KINDS, 'depth': dd, 'prefixes': [[]]}
    for a in alphabet:
        for b in alphabet:
            yield {'w': 'bfs', 'kinds': KINDS, 'depth': depth, 'prefixes': [[list(a), list(b)]]}
    # MMB-sized images
    small = [(1, 'P'), (1, 'F'), (2, 'P'), (2, 'F')]
    big = [(511, 'P'), (511, 'F')]
    hs = []
    for b in big:
        hs.append([b])
        for s in small:
            hs.append([s, b])
            hs.append([b, s])
            for s2 in small:
                hs.append([s, s2, b])
                hs.append([s, b, s2])
                hs.append([b, s, s2])
        for b2 in big:
            hs.append([b, b2])
            for s in small:
                hs.append([b, s, b2])
    for i in range(0, len(hs), 8):
        yield {'w': 'bfs', 'kinds': KINDS, 'depth': 0, 'prefixes': [h for h in hs[i:i + 8]], 'explicit': True}


def fam_tlc(tier):
    """TLC on spec/DriveAlloc.tla; every reachable model state replayed against connect_drives"""
    if tier == 'quick':
        yield {'w': 'tlc', 'kinds': [1, 2, 3], 'maximages': 4, 'maxdrive': 40}
    else:
        yield {'w': 'tlc', 'kinds': [1, 2, 3, 5], 'maximages': 5, 'maxdrive': 64}


def fam_address(tier):
    """real image files (ssd, dsd, two-sided ssd, 1-/2-sided hfe, 2-sided hfe with a blank side, mfm, mmb) attached in every order/policy up to 3 (quick: 2 + selected 3) images: every drive number addressed"""
    kinds = ['ssd', 'dsd', 'hfe2', 'ssd2', 'hfe1', 'mfm']
    alph = [(k, p) for k in kinds for p in 'PF']
    for a in alph:
        yield {'w': 'address', 'seq': [list(a)]}
    for a in alph:
        for b in alph:
            yield {'w': 'address', 'seq': [list(a), list(b)]}
    main = [(k, p) for k in ('ssd', 'dsd', 'hfe2') for p in 'PF']
    trip = list(itertools.product(main, repeat=3))
    if tier == 'quick':
        trip = trip[::3]
    for t in trip:
        yield {'w': 'address', 'seq': [list(x) for x in t]}
    # two-sided flux images with one unwritten side: alone, before and after every other kind, both policies
    for bk in ('hfe2b0', 'hfe2b1'):
        for p in 'PF':
            yield {'w': 'address', 'seq': [[bk, p]]}
            for (k2, p2) in alph + [('hfe2b0', 'P'), ('hfe2b1', 'F')]:
                yield {'w': 'address', 'seq': [[bk, p], [k2, p2]]}
                yield {'w': 'address', 'seq': [[k2, p2], [bk, p]]}
            if tier == 'thorough':
                for (k2, p2) in main:
                    for (k3, p3) in main:
                        yield {'w': 'address', 'seq': [[k2, p2], [bk, p], [k3, p3]]}
    for seq in ([('mmb', 'P')], [('ssd', 'P'), ('mmb', 'P')], [('mmb', 'F'), ('dsd', 'P')], [('ssd', 'F'), ('ssd', 'F'), ('mmb', 'P'), ('ssd', 'P')]):
        yield {'w': 'address', 'seq': [list(x) for x in seq]}


def w_bfs_explicit(case):
    res = mkres()
    try:
        hists = [tuple(tuple(x) for x in h) for h in case['prefixes']]
        got = impl_states(hists)
        for h, (states, oks) in zip(hists, got):
            ref = ref_alloc(h)
            res['n'] += 1
            for name, detail in invariants(h, states):
                res['viol'].append(('C16:alloc:%s' % name, 'history %s: %s' % (h, detail[:200])))
            if states != ref or not all(oks):
                res['viol'].append(('C16:alloc:differs-from-reference-model:big', 'history %s' % (h,)))
            else:
                bump(res, 'state-ok')
            res['transitions'] += len(h)
            res['nt'].append(h)
        if res['viol']:
            res['case'] = case
    except Exception:
        import traceback
        res['viol'].append(('HARNESS', traceback.format_exc()))
        res['case'] = case
    return res


def worker(case):
    if case['w'] == 'bfs' and case.get('explicit'):
        return w_bfs_explicit(case)
    return {'bfs': w_bfs, 'tlc': w_tlc, 'address': w_address}[case['w']](case)


FAMILIES = [('T-tlc-model-and-conformance', fam_tlc), ('B-explicit-state-real-transition-function', fam_bfs),
            ('A-addressing-real-files', fam_address)]


def main(tier, seed):
    ctx = core.Ctx(PID, tier, 'model_checking', seed, quick_s=240, thorough_s=2400)
    ctx.rule = ('State = drive-number -> (image, surface) occupancy reached by an attach history; transitions = one real '
                'connect_drives call. All histories over kinds {1,2,3,5} x {PHYSICAL, FIRST} to the depth bound (plus '
                '511-surface images) are executed on the implementation; invariants I1-I4 are evaluated in every state and '
                'every state is compared with the reference model. TLC checks the same invariants on spec/DriveAlloc.tla and '
                'every reachable model state is replayed on the implementation. Addressing: real image files, every drive '
                'number through --show-config, show-titles, cat k, type :k.$.ID, --drive k.')
    states, transitions, validated, patterns = set(), 0, 0, 0
    tlcinfo = None
    for name, gen in FAMILIES:
        ctx.family(name, (gen.__doc__ or '').strip())
        if run.Deadline.hit or ctx.timed_out():
            ctx.done(name, False)
            continue
        for res in run.pmap(worker, gen(tier), chunksize=1, deadline=ctx.deadline):
            ctx.absorb(res)
            states.update(res.get('states', []))
            transitions += res.get('transitions', 0)
            patterns = max(patterns, res.get('patterns', 0))
            if res.get('incomplete'):
                run.Deadline.hit = True
            if res.get('tlc'):
                tlcinfo = res['tlc']
                validated += res['tlc']['validated']
            extra = res.get('ntcount', 0)
            if extra:
                ctx.cur['distinct_nontrivial'] += extra
                ctx.bulk_nt = getattr(ctx, 'bulk_nt', 0) + extra
        ctx.done(name, not run.Deadline.hit)
    ctx.extra['states'] = max(len(states), 1)
    ctx.extra['transitions'] = max(transitions, 1)
    ctx.extra['traces_validated_against_impl'] = validated
    ctx.extra['tlc'] = tlcinfo
    ctx.extra['distinct_occupancy_patterns_in_largest_shard'] = patterns
    ctx.samples = [{'history': [[1, 'P'], [2, 'P'], [1, 'F']], 'state': {'0': [0, 0], '1': [1, 0], '3': [1, 1], '2': [2, 0]}},
                   {'addressing': [['ssd', 'P'], ['dsd', 'F']], 'probe': 'type :3.$.ID'}]
    ctx.assumptions = ['dummy drives in the in-process executor stand for image surfaces', 'TLC 2 (tla2tools 1.8.0)']
    return ctx.finish()


def replay(rec):
    res = worker(rec['case'])
    for sig, text in res['viol']:
        print('replayed violation:', sig, text[:300])
    if any(s == rec['signature'] for s, _ in res['viol']):
        print('VIOLATION property=%s replay=(replayed)' % PID)
        return 1
    print('no violation on replay')
    return 0
