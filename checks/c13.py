"""C13 — file-system variant and geometry are identified from the on-disc markers only.
Exhaustive: each variant x geometry x container hint; a Watford disc with one file at every start sector;
Acorn discs whose sector-2 file imitates the Watford marker (all 2^8 subsets of the 8 marker bytes);
Acorn discs whose file covers sector 16 with every incomplete Opus table; catalogue-like bodies at every
side-2 offset the prober consults; differential: identification and cat/info do not depend on bodies."""
import os, re, itertools
from lib import core, run, dfsrun, disc, images

VARIANTS = ['plain']
PID = 'C13'
BIN = 'plain'


def mkres():
    return {'n': 0, 'out': {}, 'viol': [], 'nt': [], 'case': None}


def bump(res, k, n=1):
    res['out'][k] = res['out'].get(k, 0) + n


FMT = {'Acorn DFS': 'acorn', 'Watford DFS': 'watford', 'Opus DDOS': 'opus', 'HDFS': 'hdfs'}


def observe(d, fname):
    """-> dict(format, sectors, config lines, cat, info, status)"""
    r = dfsrun.dfs(BIN, ['--verbose', '--file', fname, '--show-config', 'cat'], d)
    fm = re.search(rb'File system format appears to be (.+?) occupying (\d+) sectors', r.err)
    cfg = [ln for ln in r.err.split(b'\n') if re.match(rb'^Drive\s+\d+: ', ln)]
    geo = {}
    for ln in cfg:
        m = re.match(rb'^Drive\s+(\d+): occupied, (single|double) density, (\d+) sides?, (\d+) tracks, (\d+) sectors per track', ln)
        if m:
            geo[int(m.group(1))] = (m.group(2).decode(), int(m.group(3)), int(m.group(4)), int(m.group(5)))
    r2 = dfsrun.dfs(BIN, ['--file', fname, 'info', '#.*'], d)
    r3 = dfsrun.dfs(BIN, ['--file', fname, 'free'], d)
    return {'format': FMT.get(fm.group(1).decode()) if fm else None, 'sectors': int(fm.group(2)) if fm else None,
            'geo': geo, 'cat': r.out, 'cat_status': r.status(), 'info': r2.out, 'info_status': r2.status(), 'free': r3.out,
            'err': r.err[-300:]}


def ref_identify(img, nsect_file):
    """reference recogniser from the property text; img = bytes of the (first) surface as stored"""
    s1 = img[256:512]
    if s1[6] & 8:
        return 'hdfs'
    n = s1[5] // 8
    starts = [s1[8 + 8 * i + 7] | ((s1[8 + 8 * i + 6] & 3) << 8) for i in range(n)]
    if len(img) >= 3 * 256 and img[512:520] == b'\xAA' * 8 and 2 not in starts:
        return 'watford'
    if opus_table_complete(img):
        return 'opus'
    return 'acorn'


def cat_valid(s0, s1, minimum_total):
    last = s1[5]
    if last % 8 or last > 31 * 8:
        return False
    total = s1[7] | ((s1[6] & 3) << 8)
    if total < minimum_total:
        return False
    prev = None
    for i in range(last // 8):
        o = 8 + 8 * i
        ln = s1[o + 4] | (s1[o + 5] << 8) | (((s1[o + 6] >> 4) & 3) << 16)
        st = s1[o + 7] | ((s1[o + 6] & 3) << 8)
        if ln == 0:
            continue
        end = st + (ln + 255) // 256 - 1
        if prev is not None:
            if end >= total or end >= prev:
                return False
        prev = st
    return True


def opus_table_complete(img):
    """a self-consistent Opus volume table: 18 sectors/track, total = 35/40/80 tracks x 18 and present in the image,
    at least one volume, every listed volume starting within the disc and carrying a valid catalogue"""
    if len(img) < 17 * 256:
        return False
    t = img[16 * 256:17 * 256]
    total = (t[1] << 8) | t[2]
    if t[3] != 18 or total not in (630, 720, 1440):
        return False
    if len(img) < total * 256:
        return False
    vols = []
    for i in range(8):
        trk = t[8 + 2 * i]
        if trk:
            vols.append((i, trk))
    if not vols:
        return False
    for i, trk in vols:
        if trk * 18 > total:
            return False
        if not cat_valid(img[2 * i * 256:(2 * i + 1) * 256], img[(2 * i + 1) * 256:(2 * i + 2) * 256], 18):
            return False
    return True


def build(case):
    """-> (file name, bytes, surface bytes)"""
    kind, tracks, spt, ext = case['kind'], case['tracks'], case['spt'], case['ext']
    n = tracks * spt
    total = case.get('total', min(n, 1023))
    if kind == 'opus' and case.get('voltracks'):
        vols = {}
        trk = 1
        for L, nt in zip('ABCDEFGH', case['voltracks']):
            vols[L] = (trk, disc.Volume([disc.Entry(b'F' + L.encode(), b'$', False, 0, 0, 300, 2)], b'V' + L.encode(), 1, 0, nt * 18))
            trk += nt
        surf, _ = disc.opus_surface(vols, tracks, case.get('tag', 'b').encode())
    elif kind == 'opus':
        surf, _, _ = images.opus_surface(tracks)
    else:
        first = 4 if kind == 'watford' else 2
        files = [tuple(f) for f in case.get('files', [(first, 300)])]
        ents = [disc.Entry(b'F%d' % i, b'$', False, 0, 0, ln, st) for i, (st, ln) in enumerate(files)]
        ents2 = [disc.Entry(b'G%d' % i, b'$', False, 0, 0, ln, st) for i, (st, ln) in enumerate(case.get('files2', []))]
        v = disc.Volume(ents, b'IDENT', 7, 1, total, ents2 if kind == 'watford' else None)
        surf = bytearray(disc.acorn_surface(v, n, case.get('tag', 'b').encode(), watford=(kind == 'watford')))
        if case.get('hdfs'):
            surf[256 + 6] |= 8
        if total >= 1024:
            # Watford DDFS large disc: bit 10 of the sector count lives in bit 2 of byte 6 (both catalogue halves)
            surf[256 + 6] |= 4
            if kind == 'watford':
                surf[768 + 6] |= 4
        for off, hx in case.get('poke', []):
            b = bytes.fromhex(hx)
            surf[off:off + len(b)] = b
        surf = bytes(surf)
    if ext in ('ssd', 'sdd'):
        data = surf
    else:
        other, _, _ = images.small_surface('acorn', tracks, spt, tag='Z', title='SIDE2', total=total)
        data = disc.interleave(surf, other, spt)
    if case.get('cut'):
        data = data[:case['cut'] * 256]
        if ext in ('ssd', 'sdd'):
            surf = surf[:case['cut'] * 256]
    name = 'img.' + ext + ('.gz' if case.get('gz') else '')
    if case.get('gz'):
        data = images.gz(data)
    return name, data, surf


def w_ident(case):
    res = mkres()
    try:
        d = run.fresh_dir('c13')
        name, data, surf = build(case)
        dfsrun.write(d, name, data)
        o = observe(d, name)
        res['n'] += 1
        want = case.get('want') or ref_identify(surf, len(surf) // 256)
        sig = case['sig']
        note = case.get('note', '')
        if o['format'] != want:
            bump(res, 'misidentified')
            res['viol'].append(('%s:identified-as-%s-not-%s' % (sig, o['format'], want), '%s: identified as %s, markers say %s (%r)' % (
                note, o['format'], want, o['err'][-120:])))
        else:
            bump(res, 'identified-' + str(want))
        # geometry capacity
        total = case.get('total', min(case['tracks'] * case['spt'], 1023))
        g = o['geo'].get(0)
        if o['format'] and g:
            cap = g[2] * g[3]
            if want != 'opus' and cap < total:
                res['viol'].append((sig + ':geometry-too-small', '%s: geometry %s holds %d sectors, catalogue says %d' % (note, g, cap, total)))
            dens = 'single' if case['spt'] == 10 else 'double'
            if case['ext'] in ('ssd', 'sdd', 'dsd', 'ddd') and not case.get('gz') and g[0] != dens:
                res['viol'].append((sig + ':density', '%s: %s' % (note, g)))
        # differential: the same disc with other file bodies
        if case.get('differential'):
            c2 = dict(case)
            c2['tag'] = 'q'
            c2.pop('poke', None)
            name2, data2, surf2 = build(c2)
            dfsrun.write(d, 'alt_' + name, data2)
            o2 = observe(d, 'alt_' + name)
            res['n'] += 1
            same = (o['format'], o['geo'], o['cat'], o['info'], o['free']) == (o2['format'], o2['geo'], o2['cat'], o2['info'], o2['free'])
            if not same:
                what = 'format' if o['format'] != o2['format'] else ('geometry' if o['geo'] != o2['geo'] else 'listing')
                bump(res, 'body-dependent')
                res['viol'].append(('%s:depends-on-file-bodies:%s' % (sig, what), '%s: with other file bodies: format %s/%s geometry %s/%s' % (
                    note, o['format'], o2['format'], o['geo'].get(0), o2['geo'].get(0))))
            else:
                bump(res, 'body-independent')
        res['nt'].append((sig, note))
        if res['viol']:
            res['case'] = case
    except Exception:
        import traceback
        res['viol'].append(('HARNESS', traceback.format_exc()))
        res['case'] = case
    return res


worker = w_ident


def fam_matrix(tier):
    """variant x geometry x container (with and without the .gz that used to lose the hint) x catalogue totals"""
    for ext, geos in (('ssd', [(35, 10), (40, 10), (80, 10)]), ('dsd', [(35, 10), (40, 10), (80, 10)]),
                      ('sdd', [(35, 18), (40, 18), (80, 18)]), ('ddd', [(35, 18), (40, 18), (80, 18)])):
        for tr, spt in geos:
            for kind in ('acorn', 'watford') + (('opus',) if ext == 'sdd' else ()):
                for gzf in (False, True):
                    totals = [min(tr * spt, 1023)] + ([100, 300] if kind != 'opus' else [])
                    if tier == 'thorough' and kind != 'opus':
                        totals = sorted(set(totals + list(range(50, min(tr * spt, 1023), 37)) + [tr * spt - 1 if tr * spt <= 1023 else 1022]))
                    for total in totals:
                        c = {'kind': kind, 'tracks': tr, 'spt': spt, 'ext': ext, 'gz': gzf, 'sig': 'C13:matrix:%s' % kind,
                             'note': '%s %s %dx%d total=%d%s' % (kind, ext, tr, spt, total, ' .gz' if gzf else ''), 'differential': True}
                        if kind != 'opus':
                            c['total'] = total
                        yield c
    # Opus volume sizes: every combination of 1-, 2- and 3-track volumes for 1..3 volumes, and eight one-track volumes
    import itertools as _it
    combos = [c for n in (1, 2, 3) for c in _it.product((1, 2, 3), repeat=n)] + [(1,) * 8, (1, 1, 1, 1, 2)]
    if tier == 'thorough':
        combos = [c for n in (1, 2, 3, 4) for c in _it.product((1, 2, 3, 5), repeat=n)] + [(1,) * k for k in range(5, 9)] + [(2,) * 8, (4,) * 8]
    for vt in combos:
        for tr in (40, 80):
            yield {'kind': 'opus', 'tracks': tr, 'spt': 18, 'ext': 'sdd', 'voltracks': list(vt), 'want': 'opus', 'sig': 'C13:matrix:opus:volume-sizes',
                   'note': 'opus %d tracks, volumes of %s tracks' % (tr, vt), 'differential': True}
    for tr, spt, ext in ((40, 10, 'ssd'), (80, 18, 'sdd')):
        yield {'kind': 'acorn', 'tracks': tr, 'spt': spt, 'ext': ext, 'hdfs': True, 'sig': 'C13:hdfs-flag', 'note': 'HDFS flag bit set'}


def fam_watford_large(tier):
    """Watford large discs: catalogue sector counts of 1024..1440 (11-bit count, bit 10 in bit 2 of byte 6) on 80x18, files up to sector 1000"""
    totals = (1024, 1280, 1439, 1440) if tier == 'quick' else sorted(set(list(range(1024, 1441, 13)) + [1024, 1025, 1279, 1280, 1439, 1440]))
    for ext in ('sdd', 'ddd'):
        for gzf in (False, True):
            for total in totals:
                for files in ([(4, 300)], [(1000, 300), (4, 300)], [(1022, 256), (500, 70000), (4, 1)]):
                    yield {'kind': 'watford', 'tracks': 80, 'spt': 18, 'ext': ext, 'gz': gzf, 'total': total, 'files': files, 'want': 'watford',
                           'sig': 'C13:watford-large-disc', 'note': 'watford %s 80x18 total=%d files=%s%s' % (ext, total, files, ' .gz' if gzf else ''),
                           'differential': True}


def fam_watford_starts(tier):
    """Watford disc with one first-catalogue file at every start sector 4..1022 (and a second-catalogue file)"""
    step = 1
    starts = sorted(set(list(range(4, 1022, step)) + [0x102, 0x202, 0x302, 0x103, 0x1FE, 0x2FF]))
    for st in starts:
        yield {'kind': 'watford', 'tracks': 80, 'spt': 18, 'ext': 'sdd', 'total': 1023, 'files': [[st, 200]],
               'files2': [[1022, 100]] if st < 1021 else [], 'sig': 'C13:watford:file-start', 'note': 'file at sector 0x%03X' % st}
    if tier == 'thorough':
        # the same with the file in the SECOND catalogue, and on the other containers/geometries
        for st in starts:
            yield {'kind': 'watford', 'tracks': 80, 'spt': 18, 'ext': 'sdd', 'total': 1023, 'files': [[4, 200]] if st > 4 else [],
                   'files2': [[st, 200]], 'sig': 'C13:watford:file-start:second-catalogue', 'note': 'second-catalogue file at sector 0x%03X' % st}
        for ext, tr, spt in (('ssd', 80, 10), ('dsd', 80, 10), ('ddd', 80, 18), ('ssd', 40, 10)):
            tot = min(tr * spt, 1023)
            for st in range(4, tot - 1):
                yield {'kind': 'watford', 'tracks': tr, 'spt': spt, 'ext': ext, 'total': tot, 'files': [[st, 200]], 'files2': [[tot - 1, 100]] if st < tot - 2 else [],
                       'sig': 'C13:watford:file-start', 'note': '%s %dx%d: file at sector 0x%03X' % (ext, tr, spt, st)}


def fam_marker_imitation(tier):
    """Acorn disc whose file starts in sector 2 with every subset of the 8 Watford marker bytes present (2^8), and Acorn discs with the marker bytes in free sector 2"""
    for mask in range(256):
        body = bytes(0xAA if mask & (1 << i) else 0x55 for i in range(8))
        yield {'kind': 'acorn', 'tracks': 40, 'spt': 10, 'ext': 'ssd', 'files': [[2, 600]], 'poke': [[512, body.hex()]],
               'sig': 'C13:acorn:sector2-file-imitates-watford', 'note': 'file at sector 2 begins %s' % body.hex(), 'differential': True}
        if tier == 'thorough':
            for ext, tr, spt in (('ssd', 80, 10), ('sdd', 80, 18), ('dsd', 40, 10), ('ddd', 40, 18), ('sdd', 40, 16)):
                for ln in (1, 256, 2048):
                    yield {'kind': 'acorn', 'tracks': tr, 'spt': spt, 'ext': ext, 'files': [[2, ln]], 'poke': [[512, body.hex()]],
                           'sig': 'C13:acorn:sector2-file-imitates-watford', 'note': '%s %dx%d: file of %d bytes at sector 2 begins %s' % (ext, tr, spt, ln, body.hex()),
                           'differential': True}
    # the marker in a sector-2 file of a larger catalogue, file listed at every catalogue position
    for pos in range(0, 31, 5 if tier == 'quick' else 1):
        files = [[100 - 3 * i, 300] for i in range(31)]
        files[pos] = [2, 256]
        files.sort(key=lambda f: -f[0])
        yield {'kind': 'acorn', 'tracks': 40, 'spt': 10, 'ext': 'ssd', 'files': files, 'poke': [[512, 'aa' * 8]],
               'sig': 'C13:acorn:sector2-file-imitates-watford', 'note': 'sector-2 file among 31 entries', 'differential': True}
    # second-catalogue-like content too
    yield {'kind': 'acorn', 'tracks': 40, 'spt': 10, 'ext': 'ssd', 'files': [[2, 1024]], 'poke': [[512, 'aa' * 8], [768 + 5, '08'], [768 + 6, '01'], [768 + 7, '90']],
           'sig': 'C13:acorn:sector2-file-imitates-watford', 'note': 'file imitates a whole second catalogue', 'differential': True}


def fam_opus_imitation(tier):
    """Acorn disc (80x18 .sdd) whose file covers sector 16 with every incomplete Opus table: each recogniser condition individually false, the others true; Watford markers inside an Opus disc"""
    base = bytearray(256)
    base[0], base[1], base[2], base[3], base[4] = 0x20, 0x05, 0xA0, 18, 80
    base[8] = 1
    variants = {'complete': bytes(base)}
    b = bytearray(base); b[3] = 17; variants['spt-17'] = bytes(b)
    b = bytearray(base); b[3] = 0; variants['spt-0'] = bytes(b)
    b = bytearray(base); b[1], b[2] = 0x05, 0xA1; variants['total-1441'] = bytes(b)
    b = bytearray(base); b[1], b[2] = 0, 0; variants['total-0'] = bytes(b)
    b = bytearray(base); b[8] = 0; variants['no-volumes'] = bytes(b)
    b = bytearray(base); b[10] = 3; variants['volume-B-without-catalogue'] = bytes(b)
    b = bytearray(base); b[8] = 200; variants['volume-beyond-disc'] = bytes(b)
    for nm, tab in variants.items():
        for files in ([[10, 3000]], [[14, 1024], [2, 256]]):
            yield {'kind': 'acorn', 'tracks': 80, 'spt': 18, 'ext': 'sdd', 'total': 1023, 'files': files, 'poke': [[16 * 256, tab.hex()]],
                   'sig': 'C13:acorn:sector16-' + ('forged-complete-table' if nm == 'complete' else 'incomplete-table:' + nm),
                   'note': 'file covering sector 16 carries table variant %s' % nm, 'differential': nm != 'complete'}
        # the image is shorter than the table says (last sector unreadable)
        yield {'kind': 'acorn', 'tracks': 80, 'spt': 18, 'ext': 'sdd', 'total': 700, 'files': [[10, 3000]], 'poke': [[16 * 256, tab.hex()]], 'cut': 800,
               'sig': 'C13:acorn:sector16-table-in-short-image', 'note': 'table variant %s, image cut to 800 sectors' % nm}


def fam_opus_partial(tier):
    """Acorn disc whose file covers sectors 2..16 with an Opus table listing volume A (in range, the disc's real catalogue) plus ONE OR TWO further volumes B..H, each with a valid-looking catalogue in its slot, one of them starting beyond the disc (just beyond / far beyond): not self-consistent, so Acorn"""
    ecat0, ecat1 = disc.catalogue(b'VOLX', 1, 0, 360, [])
    for tracks, tot in ((80, 1440), (40, 720)):
        for slot in range(1, 8):
            for bad in (tracks + 1, 200, 255):
                for extra in (None, 2):          # optionally a further, in-range volume (sorted before the bad one)
                    tab = bytearray(256)
                    tab[0], tab[1], tab[2], tab[3], tab[4] = 0x20, tot >> 8, tot & 0xFF, 18, tracks
                    tab[8] = 1
                    tab[8 + 2 * slot] = bad
                    pokes = [[2 * slot * 256, (ecat0 + ecat1).hex()]]
                    if extra:
                        es = 1 + (slot % 7)
                        if es == slot:
                            continue
                        tab[8 + 2 * es] = extra + 1
                        pokes.append([2 * es * 256, (ecat0 + ecat1).hex()])
                    pokes.append([16 * 256, bytes(tab).hex()])
                    yield {'kind': 'acorn', 'tracks': tracks, 'spt': 18, 'ext': 'sdd', 'total': min(tot, 1023), 'files': [[2, 15 * 256]], 'poke': pokes,
                           'sig': 'C13:acorn:sector16-incomplete-table:one-volume-beyond-disc-among-valid-ones',
                           'note': '%d tracks: table lists A@1%s and %s@%d (beyond the disc), catalogues present' % (
                               tracks, ' +1 in range' if extra else '', 'ABCDEFGH'[slot], bad), 'differential': True}


def fam_side2_imitation(tier):
    """catalogue-like file bodies at every side-2 offset the prober consults (sectors 350/400/800, 630/720/1440, and the interleaved offsets)"""
    cat0, cat1 = disc.catalogue(b'FAKE', 1, 0, 400, [disc.Entry(b'Z', b'$', False, 0, 0, 256, 2)])
    fake = (cat0 + cat1).hex()
    for ext, tr, spt, total, offs in (('ssd', 80, 10, 800, [350, 400]), ('ssd', 40, 10, 400, [350]), ('sdd', 80, 18, 1023, [630, 720, 560, 640]),
                                      ('dsd', 80, 10, 800, [10, 20]), ('ddd', 80, 18, 1023, [18, 16, 36])):
        for off in offs:
            st = max(2, off - 1)
            if ext in ('dsd', 'ddd'):
                # file order sector `off` of an interleaved file = side 0 only when (off // spt) is even
                continue
            yield {'kind': 'acorn', 'tracks': tr, 'spt': spt, 'ext': ext, 'total': total, 'files': [[st, 2048]], 'poke': [[off * 256, fake]],
                   'sig': 'C13:acorn:catalogue-like-body-at-side2-offset', 'note': '%s %dx%d: file body at sector %d looks like a catalogue' % (ext, tr, spt, off),
                   'differential': True}


FAMILIES = [('M-variant-geometry-container', fam_matrix), ('L-watford-large-discs', fam_watford_large), ('A-watford-marker-imitation', fam_marker_imitation),
            ('O-opus-table-imitation', fam_opus_imitation), ('P-opus-partly-consistent-tables', fam_opus_partial), ('S-side2-catalogue-imitation', fam_side2_imitation),
            ('W-watford-every-start-sector', fam_watford_starts)]


def main(tier, seed):
    ctx = core.Ctx(PID, tier, 'exploration', seed, quick_s=200, thorough_s=1800)
    ctx.rule = ('Each case is a well-formed disc whose variant is known from its markers (reference recogniser written from the '
                'property: HDFS flag, 0xAA x 8 at sector 2 with no file starting there, self-consistent Opus table, else Acorn); '
                'the identification is observed through --verbose/--show-config and cat/info/free; differential cases rebuild the '
                'same disc with different file bodies and require identical identification and listings. Non-trivial = every '
                'distinct disc description.')
    ctx.assumptions = ['16-sector geometries are left out (an image of one is byte-identical to an 18-sector image)',
                       'a body forging a complete Opus table must be identified as Opus (the property\'s own exception)']
    ctx.explore(FAMILIES, worker, tier, chunksize=4)
    ctx.samples = [{'family': 'W', 'disc': 'Watford 80x18', 'first_catalogue_file_start': '0x102'},
                   {'family': 'O', 'disc': 'Acorn 80x18', 'sector16': 'table with sectors-per-track 17'}]
    return ctx.finish()


def replay(rec):
    res = worker(rec['case'])
    for sig, text in res['viol']:
        print('replayed violation:', sig, text[:300])
    if any(s == rec['signature'] for s, _ in res['viol']):
        print('VIOLATION property=%s replay=(replayed)' % PID)
        return 1
    print('no violation on replay')
    return 0
