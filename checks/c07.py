"""C07 — dfs fails cleanly on arbitrary image files and command lines.
Exhaustive over a stated structural space (not over all byte strings): every truncation length of the
structural regions, every structural byte set to boundary values (all 256 values for count/size/offset
fields), all very short files, every valid file under every other extension, file-name shapes, and the
command-line matrix; on ASan+UBSan builds with and without NDEBUG, resource use on the plain build."""
import os, itertools, struct
from lib import core, run, dfsrun, mcb, build, images, disc, flux

VARIANTS = ['san', 'san-assert', 'plain']
PID = 'C07'
TIMEOUT = 10.0


def mkres():
    return {'n': 0, 'out': {}, 'viol': [], 'nt': [], 'case': None}


def bump(res, k):
    res['out'][k] = res['out'].get(k, 0) + 1


def verdict(r, variant, rss_limit_kb=None):
    """None if the run ended cleanly, else (kind, detail)."""
    if r.timeout:
        return ('timeout', '')
    kind, frame = mcb.san_kind(r.err)
    if kind and kind.split(':')[0] in ('asan', 'msan', 'ubsan', 'assert', 'terminate', 'glibcxx-assert'):
        return ('%s:%s' % (kind, frame), r.err[-500:].decode('latin-1'))
    if r.sig:
        return ('signal:%d:%s' % (r.sig, frame), r.err[-300:].decode('latin-1'))
    if r.exit not in (0, 1, 2):
        return ('exit%d' % r.exit, r.err[-300:].decode('latin-1'))
    if r.exit != 0 and not r.err.strip():
        return ('silent-failure', 'exit %d with empty stderr' % r.exit)
    if rss_limit_kb and r.maxrss_kb > rss_limit_kb:
        return ('rss', 'max RSS %d kB' % r.maxrss_kb)
    return None


def confirm_timeout(variant, argv, d):
    r = run.run_limited([build.exe(variant, 'dfs')] + argv, cwd=d, timeout=TIMEOUT * 4)
    return r.timeout


CMDS_AFTER_MOUNT = [['info', '#.*'], ['free'], ['space'], ['sector-map'], ['show-titles'], ['type', 'HELLO'],
                    ['dump', 'W.WORLD'], ['list', '!BOOT'], ['dump-sector', '0', '0', '1'],
                    ['extract-unused', 'out'], ['extract-files', 'out']]


def run_file(res, variant, d, fname, cmds, sig, note, follow=None, rss=False):
    """run `cmds` (list of argv tails) against fname; if the first exits 0 and follow given, run those too."""
    todo = list(cmds)
    first = True
    while todo:
        cmd = todo.pop(0)
        argv = ['--file', fname] + cmd
        if rss:
            r = run.run_limited([build.exe(variant, 'dfs')] + argv, cwd=d, timeout=TIMEOUT)
        else:
            r = dfsrun.dfs(variant, argv, d, timeout=TIMEOUT)
        res['n'] += 1
        v = verdict(r, variant, 256 * 1024 if rss else None)
        if v and v[0] == 'timeout':
            if not confirm_timeout(variant, argv, d):
                v = None
        if v:
            bump(res, v[0].split(':')[0])
            res['viol'].append(('%s:%s:%s' % (sig, cmd[0], v[0]), '%s variant=%s argv=%r: %s %s' % (
                note, variant, argv, v[0], v[1][-300:])))
            if v[0] == 'timeout':
                # a confirmed hang (limit x5 in all): further commands on the same file would each take as long
                # and the file is already a reported violation
                res['hung'] = True
                return
        else:
            bump(res, r.status())
        if first and follow and r.exit == 0 and not r.sig and not r.timeout:
            todo.extend(follow)
        first = False


def w_file(case):
    """one image file content (hex or builder parameters) under one name; run commands"""
    res = mkres()
    try:
        d = run.fresh_dir('c07')
        os.makedirs(os.path.join(d, 'out'))
        data = build_data(case)
        fname = case['name']
        dfsrun.write(d, fname, data)
        for variant in case['variants']:
            if res.get('hung'):
                break
            run_file(res, variant, d, fname, case['cmds'], case['sig'], case.get('note', ''), case.get('follow'),
                     rss=(variant == 'plain'))
        res['nt'].append((case['name'], case.get('key')))
        if res['viol']:
            res['case'] = case
    except Exception:
        import traceback
        res['viol'].append(('HARNESS', traceback.format_exc()))
        res['case'] = case
    return res


_BASE = None


def bases():
    global _BASE
    if _BASE is None:
        _BASE = images.valid_images()
        o, _, _ = images.opus_surface(40)
        _BASE['sdd-opus'] = o[:60 * 256]
        w, _, _ = images.small_surface('watford', 40, 10, tag='W')
        _BASE['ssd-watford'] = w[:16 * 256]
        # two-sided hfe (FM) and v3
        s0, _, _ = images.small_surface('acorn', 2, 10, total=20)
        s1, _, _ = images.small_surface('acorn', 2, 10, total=20, tag='Q', title='SIDE1')
        _BASE['hfe-2side'] = flux.hfe_from_surfaces([s0, s1], 2, 10, 'FM', 1)
        sm, _, _ = images.small_surface('acorn', 2, 18, total=36)
        _BASE['hfe-v3-mfm'] = flux.hfe_from_surfaces([sm], 2, 18, 'MFM', 3)
    return _BASE


def build_data(case):
    b = case['data']
    if b['kind'] == 'hex':
        data = bytes.fromhex(b['hex'])
    elif b['kind'] == 'trunc':
        data = bases()[b['base']][:b['len']]
    elif b['kind'] == 'poke':
        data = bytearray(bases()[b['base']])
        for off, val in b['pokes']:
            if off < len(data):
                data[off] = val
        data = bytes(data)
    elif b['kind'] == 'base':
        data = bases()[b['base']]
    else:
        raise ValueError(b)
    if b.get('gz'):
        data = images.gz(data)
        if b.get('gztrunc') is not None:
            data = data[:b['gztrunc']]
    return data


def ext_of(base):
    return base.split('-')[0]


# --------------------------------------------------------------------------------- families
SAN = ['san']
BOTH = ['san', 'san-assert']


def trunc_lengths(base, tier):
    n = len(bases()[base])
    e = ext_of(base)
    L = set([n - 1, n - 255, n - 256, n - 257])
    if e in ('ssd', 'sdd'):
        L |= set(range(0, 1100))
        if base == 'sdd-opus':
            L |= set(range(4090, 4360)) | set(range(18 * 256 - 4, 18 * 256 + 520))
    elif e == 'dsd':
        L |= set(range(0, 600)) | set(range(2500, 3200))
    elif e == 'ddd':
        L |= set(range(0, 600)) | set(range(4550, 5200))
    elif e == 'mmb':
        if tier == 'thorough':
            L |= set(range(0, 8300))
        else:
            L |= set(range(0, 80)) | set(range(8100, 8300)) | set(x + k for x in range(0, 8192, 256) for k in (-1, 0, 1))
        L |= set(range(8192, 8192 + 1100, 1 if tier == 'thorough' else 7))
    elif e == 'hfe':
        L |= set(range(0, 1100)) if tier == 'thorough' else (set(range(0, 40)) | set(range(500, 540)) | set(range(1000, 1040)))
    elif e == 'mfm':
        L |= set(range(0, 120))
    L |= set(range(0, n, 256))
    return sorted(x for x in L if 0 <= x < n)


def fam_trunc(tier):
    """every truncation length of the structural regions (then every 256-byte boundary) of a valid file, raw and .gz"""
    for base in ['ssd', 'sdd', 'dsd', 'ddd', 'mmb', 'hfe', 'mfm', 'sdd-opus', 'ssd-watford', 'hfe-2side', 'hfe-v3-mfm']:
        e = ext_of(base)
        for L in trunc_lengths(base, tier):
            boundary = (L % 256 == 0)
            yield {'w': 'file', 'name': 'img.' + e, 'data': {'kind': 'trunc', 'base': base, 'len': L},
                   'variants': BOTH if boundary or L < 64 else SAN, 'cmds': [['cat']],
                   'follow': CMDS_AFTER_MOUNT if boundary else [['space'], ['sector-map']],
                   'sig': 'C07:trunc:' + base, 'note': 'len=%d' % L, 'key': ('trunc', base, L)}
            if boundary or L < 40:
                yield {'w': 'file', 'name': 'img.%s.gz' % e, 'data': {'kind': 'trunc', 'base': base, 'len': L, 'gz': True},
                       'variants': SAN, 'cmds': [['cat']], 'follow': [['space']],
                       'sig': 'C07:trunc-gz:' + base, 'note': 'len=%d' % L, 'key': ('truncgz', base, L)}
    # the compressed stream itself cut at every length
    for base in ['ssd', 'hfe', 'mfm']:
        e = ext_of(base)
        n = len(images.gz(bases()[base]))
        for L in range(0, n, 1 if tier == 'thorough' or n < 700 else 5):
            yield {'w': 'file', 'name': 'img.%s.gz' % e,
                   'data': {'kind': 'base', 'base': base, 'gz': True, 'gztrunc': L},
                   'variants': SAN, 'cmds': [['cat']], 'sig': 'C07:gzstream-cut:' + base, 'note': 'gzlen=%d' % L,
                   'key': ('gzcut', base, L)}


VALS_Q = [0x00, 0xFF, 0x80, 0x08]
VALS_T = [0x00, 0x01, 0x07, 0x08, 0x7F, 0x80, 0xF7, 0xF8, 0xFF]


def regions(base):
    """[(offset range, field?)]: structural byte offsets; `field` = count/size/offset field -> all 256 values"""
    e = ext_of(base)
    r = []
    if e in ('ssd', 'sdd'):
        r.append((range(0, 40), False))
        r.append((range(256, 256 + 40), False))
        r.append(([256 + 5, 256 + 6, 256 + 7, 256 + 8 + 6, 256 + 8 + 7, 256 + 16 + 6, 256 + 16 + 7, 256 + 8 + 4, 256 + 8 + 5], True))
        if base == 'ssd-watford':
            r.append((range(512, 512 + 24), False))
            r.append((range(768, 768 + 24), False))
            r.append(([768 + 5, 768 + 6, 768 + 7, 768 + 8 + 6, 768 + 8 + 7], True))
        if base == 'sdd-opus':
            r.append((range(4096, 4096 + 26), True))
            r.append((range(512, 512 + 16), False))
            r.append(([512 + 256 + 5, 512 + 256 + 6, 512 + 256 + 7], True))
    elif e in ('dsd', 'ddd'):
        spt = 10 if e == 'dsd' else 18
        r.append((range(256, 256 + 24), False))
        r.append(([256 + 5, 256 + 6, 256 + 7], True))
        r.append((range(spt * 256 + 256, spt * 256 + 256 + 24), False))
        r.append(([spt * 256 + 256 + 5, spt * 256 + 256 + 6, spt * 256 + 256 + 7], True))
    elif e == 'mmb':
        r.append((range(0, 16), False))
        r.append(([16 + 15, 32 + 15, 48 + 15, 64 + 15, 8192 - 1], True))
        r.append((range(8192 + 256, 8192 + 256 + 16), False))
        r.append(([8192 + 256 + 5, 8192 + 256 + 6, 8192 + 256 + 7], True))
    elif e == 'hfe':
        r.append((range(0, 26), True))
        r.append((range(512, 520), True))
        r.append((range(1024, 1024 + 40), False))
    elif e == 'mfm':
        r.append((range(0, 19), True))
        r.append((range(19, 19 + 22), True))
    return r


def fam_poke(tier):
    """every structural byte offset set to boundary values; count/size/offset fields take all 256 values"""
    vals = VALS_Q if tier == 'quick' else VALS_T
    q = tier == 'quick'
    few = sorted(set(VALS_Q + [1, 2, 3, 4, 0x10, 0xF0, 0xFE]))
    light = [['space'], ['sector-map']]
    for base in ['ssd', 'ssd-watford', 'sdd-opus', 'dsd', 'ddd', 'mmb', 'hfe', 'hfe-2side', 'hfe-v3-mfm', 'mfm']:
        e = ext_of(base)
        orig = bases()[base]
        for offs, field in regions(base):
            for off in offs:
                if field:
                    vv = range(256) if (not q or base in ('ssd', 'hfe', 'mfm')) else few
                else:
                    vv = vals
                for v in vv:
                    if off < len(orig) and orig[off] == v:
                        continue
                    full = (not q) or (field and v in few)
                    yield {'w': 'file', 'name': 'img.' + e, 'data': {'kind': 'poke', 'base': base, 'pokes': [[off, v]]},
                           'variants': BOTH if (field and v in few) else SAN, 'cmds': [['cat']],
                           'follow': CMDS_AFTER_MOUNT if full else light,
                           'sig': 'C07:poke:' + base, 'note': 'byte %d := 0x%02X' % (off, v),
                           'key': ('poke', base, off, v)}
    # 16/32-bit size fields: extreme values, checked for memory use on the plain build
    big = [0, 1, 0x7FFF, 0x8000, 0xFFFF]
    for off in (7, 15):          # mfm: tracks (u16), track_list_offset (u32)
        for v in big:
            pk = [[off, v & 0xFF], [off + 1, v >> 8]]
            yield {'w': 'file', 'name': 'img.mfm', 'data': {'kind': 'poke', 'base': 'mfm', 'pokes': pk},
                   'variants': ['san', 'plain'], 'cmds': [['cat']], 'sig': 'C07:poke16:mfm', 'note': 'u16@%d=%#x' % (off, v),
                   'key': ('poke16', 'mfm', off, v)}
    for rec in (0, 1):
        for foff in (3, 7):      # track size (u32), track offset (u32) of track-list record
            for v in (0, 1, 0xFFFF, 0x10000, 0xFFFFFF, 0x7FFFFFFF, 0xFFFFFFFF, 0x40000000):
                o = 19 + 11 * rec + foff
                pk = [[o + k, (v >> (8 * k)) & 0xFF] for k in range(4)]
                yield {'w': 'file', 'name': 'img.mfm', 'data': {'kind': 'poke', 'base': 'mfm', 'pokes': pk},
                       'variants': ['san', 'plain'], 'cmds': [['cat']], 'sig': 'C07:poke32:mfm',
                       'note': 'u32@%d=%#x' % (o, v), 'key': ('poke32', 'mfm', o, v)}
    for t in (0, 1):
        for foff in (0, 2):      # hfe LUT: offset (u16 blocks), length (u16)
            for v in big + [2, 3, 0x100, 0x6000]:
                o = 512 + 4 * t + foff
                pk = [[o, v & 0xFF], [o + 1, v >> 8]]
                yield {'w': 'file', 'name': 'img.hfe', 'data': {'kind': 'poke', 'base': 'hfe', 'pokes': pk},
                       'variants': ['san', 'plain'], 'cmds': [['cat']], 'sig': 'C07:poke16:hfe',
                       'note': 'u16@%d=%#x' % (o, v), 'key': ('poke16', 'hfe', o, v)}


def fam_short(tier):
    """all byte strings of length <=1 (quick) / <=2 (thorough) as a file of every extension, raw and named .gz"""
    strings = [b''] + [bytes([a]) for a in range(256)]
    if tier == 'thorough':
        strings += [bytes([a, b]) for a in range(256) for b in range(256)]
    for e in images.EXTS:
        for s in strings:
            if len(s) == 2 and e not in ('ssd', 'mfm', 'hfe') and s[0] not in (0, 0x1F, 0xFF, 0x48):
                continue
            yield {'w': 'file', 'name': 'img.' + e, 'data': {'kind': 'hex', 'hex': s.hex()}, 'variants': SAN,
                   'cmds': [['cat']], 'sig': 'C07:short:' + e, 'key': ('short', e, s.hex())}
            if len(s) <= 1:
                yield {'w': 'file', 'name': 'img.%s.gz' % e, 'data': {'kind': 'hex', 'hex': s.hex()}, 'variants': SAN,
                       'cmds': [['cat']], 'sig': 'C07:short-gz:' + e, 'key': ('shortgz', e, s.hex())}


def fam_cross(tier):
    """each valid file presented under each other extension (and its .gz under each)"""
    for base in images.EXTS + ['sdd-opus', 'ssd-watford', 'hfe-2side', 'hfe-v3-mfm']:
        for e in images.EXTS:
            for z in (False, True):
                yield {'w': 'file', 'name': 'img.' + e + ('.gz' if z else ''),
                       'data': {'kind': 'base', 'base': base, 'gz': z}, 'variants': BOTH, 'cmds': [['cat']],
                       'follow': CMDS_AFTER_MOUNT, 'sig': 'C07:cross:%s-as-%s' % (base, e), 'key': ('cross', base, e, z)}
            # compressed content under an uncompressed name and vice versa
            yield {'w': 'file', 'name': 'img.' + e, 'data': {'kind': 'base', 'base': base, 'gz': True}, 'variants': SAN,
                   'cmds': [['cat']], 'sig': 'C07:cross:gz-as-raw', 'key': ('crossz', base, e)}


ARGS = ['', '0', '1', '4', '-1', '99999999999999999999', '0A', '0Z', ':0.$.X', '#.*', '^', 'a/b', 'x' * 300, 'HELLO',
        ':0.$.HELLO', '2', '--', '-b', '--binary']
COMMANDS = ['cat', 'dump', 'dump-sector', 'extract-files', 'extract-unused', 'free', 'help', 'info', 'list',
            'sector-map', 'show-titles', 'space', 'type', 'nosuchcommand']


def w_cli(case):
    res = mkres()
    try:
        d = run.fresh_dir('c07')
        os.makedirs(os.path.join(d, 'out'))
        b = bases()
        dfsrun.write(d, 'v.ssd', b['ssd'])
        dfsrun.write(d, 'v.mmb', b['mmb'])
        dfsrun.write(d, 'o.sdd', b['sdd-opus'])
        dfsrun.write(d, 'noext', b['ssd'])
        dfsrun.write(d, 'only.gz', images.gz(b['ssd']))
        dfsrun.write(d, 'x.foo', b['ssd'])
        os.makedirs(os.path.join(d, 'dir.ssd'))
        for variant in case['variants']:
            for argv in case['argvs']:
                r = dfsrun.dfs(variant, argv, d, timeout=TIMEOUT)
                res['n'] += 1
                v = verdict(r, variant)
                if v:
                    bump(res, v[0].split(':')[0])
                    cmd = next((a for a in argv if a in COMMANDS), 'nocmd')
                    res['viol'].append(('C07:cli:%s:%s' % (cmd, v[0]), 'variant=%s argv=%r: %s %s' % (
                        variant, argv, v[0], v[1][-300:])))
                else:
                    bump(res, r.status())
                res['nt'].append(tuple(argv))
        if res['viol']:
            res['case'] = case
    except Exception:
        import traceback
        res['viol'].append(('HARNESS', traceback.format_exc()))
        res['case'] = case
    return res


def w_nofile(case):
    """descriptor exhaustion (RLIMIT_NOFILE = n): every open the tool makes fails at some n; it must still end cleanly"""
    res = mkres()
    try:
        d = run.fresh_dir('c07')
        os.makedirs(os.path.join(d, 'out'))
        b = bases()
        dfsrun.write(d, 'v.ssd', b['ssd'])
        dfsrun.write(d, 'v.ssd.gz', images.gz(b['ssd']))
        dfsrun.write(d, 'v.hfe.gz', images.gz(images.valid_images()['hfe']))
        dfsrun.write(d, 'v.mmb', b['mmb'])
        for argv in case['argvs']:
            for n in case['limits']:
                r = run.run_limited([build.exe('plain', 'dfs')] + argv, cwd=d, timeout=TIMEOUT, env={'RUNNER_NOFILE': str(n)})
                res['n'] += 1
                if r.exit == 127 and b'shared libr' in r.err:
                    bump(res, 'loader-could-not-start')
                    continue
                v = verdict(r, 'plain')
                if v:
                    bump(res, v[0].split(':')[0])
                    res['viol'].append(('C07:descriptor-limit:%s' % v[0], 'RLIMIT_NOFILE=%d argv=%r: %s %s' % (n, argv, v[0], v[1][-300:])))
                else:
                    bump(res, r.status())
                res['nt'].append((n, tuple(argv)))
        if res['viol']:
            res['case'] = case
    except Exception:
        import traceback
        res['viol'].append(('HARNESS', traceback.format_exc()))
        res['case'] = case
    return res


def fam_nofile(tier):
    """RLIMIT_NOFILE = 3..12 x configurations of 1..5 plain/.gz/flux images x commands (incl. the extract commands, which open output files)"""
    cfgs = [['--file', 'v.ssd'], ['--file', 'v.ssd.gz'], ['--file', 'v.ssd', '--file', 'v.ssd.gz'], ['--file', 'v.ssd.gz', '--file', 'v.hfe.gz'],
            ['--file', 'v.ssd'] * 5, ['--file', 'v.ssd.gz'] * 5, ['--file', 'v.mmb'], ['--file', 'v.hfe.gz']]
    cmds = [['cat'], ['info', '*'], ['type', 'HELLO'], ['extract-files', 'out'], ['extract-unused', 'out'], ['show-titles'], ['--help']]
    for cfg in cfgs:
        yield {'w': 'nofile', 'argvs': [cfg + c for c in cmds], 'limits': list(range(3, 13))}


def fam_cli(tier):
    """every command x 0..3 arguments from a hostile set x global options, against valid / MMB(unformatted) / Opus / empty configurations"""
    configs = [['--file', 'v.ssd'], ['--file', 'v.mmb'], ['--file', 'o.sdd'], []]
    batch = []

    def emit(argv):
        batch.append(argv)
    for cfg in configs:
        for cmd in COMMANDS:
            emit(cfg + [cmd])
            for a in ARGS:
                emit(cfg + [cmd, a])
            pairs = list(itertools.product(ARGS[:12], repeat=2))
            if tier == 'quick':
                pairs = [p for i, p in enumerate(pairs) if i % 5 == 0]
            for a, b2 in pairs:
                emit(cfg + [cmd, a, b2])
            if cmd in ('dump-sector', 'show-titles', 'space', 'type'):
                trip = list(itertools.product(ARGS[:8], repeat=3))
                if tier == 'quick' and cmd != 'dump-sector':
                    trip = [p for i, p in enumerate(trip) if i % 7 == 0]
                for t in trip:
                    emit(cfg + [cmd] + list(t))
        for opt in ('--drive', '--dir', '--ui'):
            for a in ARGS + ['acorn', 'watford', 'opus', 'help', 'Opus', 'A', '$']:
                for cmd in ('cat', 'info', 'free', 'extract-unused', 'sector-map'):
                    tail = {'cat': [], 'info': ['#.*'], 'free': [], 'extract-unused': ['out'], 'sector-map': []}[cmd]
                    emit(cfg + [opt, a, '--verbose', cmd] + tail)
                    emit([opt, a] + cfg + [cmd] + tail)
        emit(cfg + ['--help'])
        emit(cfg + ['--show-config', 'cat'])
        emit(cfg + ['--drive-first'] + cfg + ['--show-config', 'show-titles'])
        emit(cfg + ['--drive-physical'] + cfg + cfg + ['--show-config', 'show-titles'])
    # file name shapes
    for names in (['nosuch.ssd'], ['dir.ssd'], ['noext'], ['only.gz'], ['x.foo'], ['v.ssd', 'v.ssd'], ['v.ssd'] * 5,
                  ['.ssd'], [''], ['v.ssd.gz'], ['nosuch.ssd.gz'], ['dir.ssd/x.ssd'], ['v.mmb', 'v.mmb'],
                  ['v.mmb', 'v.mmb', 'v.mmb'], ['v.ssd', 'nosuch.ssd']):
        a = []
        for n in names:
            a += ['--file', n]
        for cmd in (['cat'], ['show-titles'], ['--show-config', 'cat', '1'], ['--drive-first', 'cat']):
            emit(a + cmd if cmd[0] != '--drive-first' else ['--drive-first'] + a + ['--show-config', 'cat'])
    for opts in (['--nosuchoption'], ['--file'], ['--drive'], ['-x'], ['--verbose'], ['--ui', 'help', 'cat'], []):
        emit(opts)
    for i in range(0, len(batch), 40):
        yield {'w': 'cli', 'argvs': batch[i:i + 40], 'variants': BOTH if (i // 40) % 4 == 0 else SAN}


NUMS = ['2147483647', '2147483648', '4294967295', '4294967296', '4294967297', '9223372036854775807', '9223372036854775808',
        '18446744073709551615', '18446744073709551616', '-2147483648', '-2147483649', '-9223372036854775808', '-9223372036854775809',
        '4294967296A', '9223372036854775807H', '00000000000000000001', '+1', '0x10', '1e3', ' 1', '1 ', '255', '256', '65535', '65536', '1023', '1024']


def fam_numbers(tier):
    """every place a number is parsed (--drive N / --drive=N before and after --file, drive arguments of cat/free/space/sector-map/show-titles/extract-*, the three dump-sector arguments, :N. prefixes) x 27 boundary spellings around 2^8, 2^10, 2^16, 2^31, 2^32, 2^63, 2^64 with signs, suffixes and blanks"""
    batch = []
    for cfg in (['--file', 'v.ssd'], ['--file', 'o.sdd'], []):
        for n in NUMS:
            for cmd in (['cat'], ['info', '*'], ['extract-unused', 'out']):
                batch.append(cfg + ['--drive', n] + cmd)
                batch.append(['--drive=' + n] + cfg + cmd)
                batch.append(['--drive', n, '--verbose'] + cfg + cmd)
            for cmd in ('cat', 'free', 'space', 'sector-map', 'show-titles'):
                batch.append(cfg + [cmd, n])
            for k in range(3):
                a = ['0', '0', '0']
                a[k] = n
                batch.append(cfg + ['dump-sector'] + a)
            for cmd in ('type', 'info', 'dump', 'list'):
                batch.append(cfg + [cmd, ':%s.$.HELLO' % n])
                batch.append(cfg + [cmd, ':%s' % n])
    for i in range(0, len(batch), 40):
        yield {'w': 'cli', 'argvs': batch[i:i + 40], 'variants': BOTH if (i // 40) % 4 == 0 else SAN}


def flux_structure_image(case):
    """a small flux image whose track 1 has one structurally odd sector (all CRCs valid)"""
    cont, spt = case['container'], case['spt']
    enc = 'FM' if cont == 'hfe-fm' else 'MFM'
    s0, _, _ = images.small_surface('acorn', 2, spt, total=2 * spt)
    tracks = []
    for t in range(2):
        secs = []
        for r in range(spt):
            data = s0[(t * spt + r) * 256:(t * spt + r + 1) * 256]
            sec = [t, 0, r, data]
            if t == case['track'] and r == case['pos']:
                k = case['oddity']
                if k.startswith('size') and k[4:].isdigit():
                    sc = int(k[4:])
                    sec = [t, 0, r, (data * 4)[:128 << sc], sc]
                elif k == 'cyl':
                    sec[0] = t + 1
                elif k == 'head':
                    sec[1] = 1
                elif k == 'rec-dup':
                    sec[2] = (r + 1) % spt
                elif k == 'rec-gap':
                    sec[2] = r + 40
                elif k == 'rec-255':
                    sec[2] = 255
                elif k == 'sizecode-9':
                    sec = [t, 0, r, data, 9]
                elif k.startswith('dmark-'):
                    sec = [t, 0, r, data, 1, int(k[6:], 16)]
            secs.append(tuple(sec))
        if enc == 'FM':
            bits, _ = flux.fm_track(secs)
            tracks.append(flux.pack_lsb_first(flux.fm_to_hfe_cells(bits)))
        else:
            bits, _ = flux.mfm_track(secs)
            tracks.append(flux.pack_lsb_first(bits) if cont.startswith('hfe') else flux.pack_msb_first(bits))
    if cont.startswith('hfe'):
        return 'img.hfe', flux.hfe_image([tracks], enc, 1)
    return 'img.mfm', flux.hxcmfm_image([tracks])


def w_fluxstruct(case):
    res = mkres()
    try:
        d = run.fresh_dir('c07')
        os.makedirs(os.path.join(d, 'out'))
        fname, data = flux_structure_image(case)
        if case.get('gz'):
            data = images.gz(data)
            fname += '.gz'
        dfsrun.write(d, fname, data)
        spt = case['spt']
        cmds = [['cat'], ['dump-sector', '0', str(case['track']), str(case['pos'])], ['type', '--binary', 'HELLO'], ['extract-unused', 'out'],
                ['dump-sector', '0', '1', str(spt - 1)], ['sector-map']]
        for variant in ('san', 'plain'):
            if res.get('hung'):
                break
            run_file(res, variant, d, fname, cmds, 'C07:flux-structure:%s:%s' % (case['container'], case['oddity']),
                     'track %d sector %d %s' % (case['track'], case['pos'], case['oddity']), rss=(variant == 'plain'))
        res['nt'].append((case['container'], case['oddity'], case['track'], case['pos'], case.get('gz')))
        if res['viol']:
            res['case'] = case
    except Exception:
        import traceback
        res['viol'].append(('HARNESS', traceback.format_exc()))
        res['case'] = case
    return res


def fam_fluxstruct(tier):
    """flux images (HFE FM/MFM, HxC MFM) in which one sector, at every position of a track, is structurally odd but CRC-valid: size code 0/2/3 (128/512/1024 bytes), impossible size code, wrong cylinder or head in its ID, duplicate / far / 255 record number"""
    for cont, spt in (('hfe-fm', 10), ('hfe-mfm', 18), ('mfm', 18)):
        for odd in ('size0', 'size2', 'size3', 'sizecode-9', 'cyl', 'head', 'rec-dup', 'rec-gap', 'rec-255'):
            for track in (0, 1):
                positions = range(spt) if tier == 'thorough' or odd in ('size0', 'size2', 'size3') else (0, 1, spt // 2, spt - 1)
                for pos in positions:
                    yield {'w': 'fluxstruct', 'container': cont, 'spt': spt, 'oddity': odd, 'track': track, 'pos': pos}
        yield {'w': 'fluxstruct', 'container': cont, 'spt': spt, 'oddity': 'size3', 'track': 1, 'pos': 3, 'gz': True}
        # every data address mark value F8..FF (FB normal, F8 deleted, F9/FA the WD1771's alternative marks, FC..FF not data marks), CRC valid
        for mk in range(0xF8, 0x100):
            for track in (0, 1):
                for pos in (range(spt) if tier == 'thorough' else (0, 1, spt - 1)):
                    yield {'w': 'fluxstruct', 'container': cont, 'spt': spt, 'oddity': 'dmark-%02X' % mk, 'track': track, 'pos': pos}


def worker(case):
    return {'file': w_file, 'cli': w_cli, 'fluxstruct': w_fluxstruct, 'nofile': w_nofile}[case['w']](case)


FAMILIES = [('R-descriptor-exhaustion', fam_nofile), ('N-number-parsing-boundaries', fam_numbers), ('F-flux-structure', fam_fluxstruct), ('X-cross-extension', fam_cross), ('C-command-lines', fam_cli), ('S-short-files', fam_short),
            ('T-truncation', fam_trunc), ('B-structural-bytes', fam_poke)]


def main(tier, seed):
    ctx = core.Ctx(PID, tier, 'exploration', seed, quick_s=270, thorough_s=2700)
    ctx.rule = ('Structure-aware exhaustive enumeration: every truncation length of the structural regions, every '
                'structural byte x boundary values (all 256 values for count/size/offset fields), all short files, '
                'every valid file under every other extension, and the command-line matrix, run on the real dfs binary '
                '(ASan+UBSan with libstdc++ assertions, with and without NDEBUG; plain build for memory use). '
                'Oracle: normal exit with status 0/1/2, no signal/abort/sanitizer report/uncaught exception, within the '
                'time limit (re-run alone before calling it a hang), non-zero status implies a diagnostic. '
                'Non-trivial = distinct (file name, mutation) or argv.')
    ctx.assumptions = ['memory safety as far as ASan/UBSan/_GLIBCXX_ASSERTIONS observe',
                       'not exhaustive over all byte strings: exhaustive over the stated structural neighbourhoods']
    ctx.explore(FAMILIES, worker, tier, chunksize=4)
    ctx.samples = [{'family': 'T', 'file': 'img.mfm', 'content': 'valid 2-track HxC MFM file cut to 27 bytes', 'cmd': 'cat'},
                   {'family': 'B', 'file': 'img.hfe', 'mutation': 'byte 9 (number_of_track) := 0x00'},
                   {'family': 'C', 'argv': ['--file', 'v.mmb', 'show-titles', '5']}]
    return ctx.finish()


def replay(rec):
    res = worker(rec['case'])
    for sig, text in res['viol']:
        print('replayed violation:', sig, text[:400])
    if any(s == rec['signature'] for s, _ in res['viol']):
        print('VIOLATION property=%s replay=(replayed)' % PID)
        return 1
    print('no violation on replay')
    return 0
