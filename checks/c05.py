"""C05 — HFE (v1/v3) and HxC-MFM flux images yield the same sectors as the equivalent sector dump.
Exploration: encodings x containers x sides x track counts x sectors/track x all physical sector orders
(all n! for n<=5; all rotations x coprime interleave steps for 10/16/18) x gap/sync lengths (4^4 grid on a
4-sector track) x padding, and every placement of one HFEv3 opcode (and pairs near field boundaries)."""
import os, itertools, math
from lib import core, run, dfsrun, disc, flux, images

VARIANTS = ['plain']
PID = 'C05'
BIN = 'plain'


def mkres():
    return {'n': 0, 'out': {}, 'viol': [], 'nt': [], 'case': None}


def bump(res, k, n=1):
    res['out'][k] = res['out'].get(k, 0) + n


def surface(ntracks, spt, tag, title):
    """surface with a catalogue whose file ALL covers every sector from 2 to the end (<=1023)"""
    n = ntracks * spt
    total = min(n, 1023)
    files = [['ALL', '$', False, 0x1900, 0x8023, (total - 4) * 256 - 5, 4], ['SMALL', 'S', True, 0, 0, 300, 2]] if total > 6 else \
        [['ALL', '$', False, 0, 0, (total - 2) * 256 - 5, 2]]
    spec = {'kind': 'acorn', 'tracks': ntracks, 'spt': spt, 'files': files, 'title': title, 'tag': tag, 'total': total}
    img, model = disc.build_spec(spec)
    return img, model


CMDS = [['cat'], ['info', '#.*'], ['type', '--binary', 'ALL'], ['free'], ['space'], ['sector-map'], ['show-titles'],
        ['dump', 'S.SMALL'], ['extract-files', 'out'], ['extract-unused', 'out']]


def run_cmds(d, fname, drive, cmds):
    outs = []
    od = os.path.join(d, 'out')
    for cmd in cmds:
        if os.path.exists(od):
            for x in os.listdir(od):
                os.unlink(os.path.join(od, x))
        else:
            os.makedirs(od)
        r = dfsrun.dfs(BIN, ['--file', fname, '--drive', str(drive)] + cmd, d)
        tree = dfsrun.read_tree(od) if cmd[0].startswith('extract') else None
        outs.append((r.status(), r.out, tree, r.err[:200]))
    return outs


def build_flux(case, surfs):
    enc, cont, nt, spt = case['enc'], case['container'], case['ntracks'], case['spt']
    kw = dict(case.get('gaps', {}))
    order = case.get('order')
    ordf = (lambda t: order) if order else None
    if case.get('skew'):
        base = order or list(range(spt))
        sk = case['skew']
        ordf = lambda t: base[(t * sk) % spt:] + base[:(t * sk) % spt]
    if cont == 'mfm':
        return 'img.mfm', flux.hxcmfm_from_surfaces(surfs, nt, spt, order=ordf, **kw)
    ver = 1 if cont == 'hfe1' else 3
    return 'img.hfe', flux.hfe_from_surfaces(surfs, nt, spt, enc, ver, order=ordf, pad_tracks=case.get('pad', True),
                                              lut_exact=case.get('lut_exact', False), lut_block=case.get('lut_block', 1),
                                              first_track_block=case.get('first_track_block', 2), **kw)


def w_oneside(case):
    """a two-sided flux image of which only one side was ever formatted (the other side carries no sector at all: all-zero
    cells or a 1010.. pattern) vs the one-sided sector dump of the formatted side"""
    res = mkres()
    try:
        enc, nt, spt, cont = case['enc'], case['ntracks'], case['spt'], case['container']
        fside = case['formatted_side']
        img, model = surface(nt, spt, 'S%d' % fside, 'SIDE%d' % fside)
        trs = flux.disc_to_tracks(img, nt, spt, fside, enc)
        if cont == 'mfm':
            good = [flux.pack_msb_first(b) for b, _, _ in trs]
        elif enc == 'FM':
            good = [flux.pack_lsb_first(flux.fm_to_hfe_cells(b)) for b, _, _ in trs]
        else:
            good = [flux.pack_lsb_first(b) for b, _, _ in trs]
        blank = [bytes([case['fill']]) * len(t) for t in good]
        sides = [good, blank] if fside == 0 else [blank, good]
        if cont == 'mfm':
            fname, fdata = 'img.mfm', flux.hxcmfm_image(sides)
        else:
            fname, fdata = 'img.hfe', flux.hfe_image(sides, enc, 1 if cont == 'hfe1' else 3)
        d = run.fresh_dir('c05u')
        dfsrun.write(d, fname, fdata)
        dname = 'img.ssd' if enc == 'FM' else 'img.sdd'
        dfsrun.write(d, dname, img)
        sig = 'C05:%s:%s:one-side-unformatted:formatted-side%d' % (cont, enc.lower(), fside)
        cmds = [c for c in CMDS if c != ['show-titles']]
        a = run_cmds(d, dname, 0, cmds)
        b = run_cmds(d, fname, 2 * fside, cmds)
        for cmd, x, y in zip(cmds, a, b):
            res['n'] += 1
            xx, yy = x, y
            if cmd[0] == 'sector-map' and x[0] == 'exit0' and y[0] == 'exit0':
                try:
                    from lib import render
                    xx = (x[0], render.parse_sector_map(x[1]), x[2])
                    yy = (y[0], render.parse_sector_map(y[1]), y[2])
                except Exception:
                    pass
            if fside == 1 and cmd[0] in ('cat', 'info', 'space') and x[0] == y[0] == 'exit0':
                # the drive number appears in the output (":2." / "Drive 2"): compare with the digit normalised
                if cmd[0] == 'cat':
                    try:
                        from lib import render
                        px, py = render.parse_cat(x[1]), render.parse_cat(y[1])
                        px.pop('drive'), py.pop('drive')
                        xx, yy = (x[0], px, x[2]), (y[0], py, y[2])
                    except Exception:
                        pass
                else:
                    xx = (x[0], x[1].replace(b':0.', b':N.').replace(b'on disc 0:', b'on disc N:'), x[2])
                    yy = (y[0], y[1].replace(b':2.', b':N.').replace(b'on disc 2:', b'on disc N:'), y[2])
            if xx[:3] != yy[:3]:
                what = 'exit' if x[0] != y[0] else ('stdout' if x[1] != y[1] else 'files')
                bump(res, 'differs')
                res['viol'].append(('%s:%s' % (sig, what), '%s %s %dx%d, side %d formatted, other side filled with %#x: %r on %s gave %s/%dB, on %s drive %d %s/%dB; stderr=%r' % (
                    enc, cont, nt, spt, fside, case['fill'], cmd, dname, x[0], len(x[1]), fname, 2 * fside, y[0], len(y[1]), y[3])))
                break
            bump(res, 'same')
        # the unformatted side must not be readable as anything
        r = dfsrun.dfs(BIN, ['--file', fname, 'dump-sector', str(2 - 2 * fside), '0', '0'], d)
        res['n'] += 1
        if r.status() == 'exit0':
            res['viol'].append((sig + ':unformatted-side-readable', 'dump-sector of the unformatted side succeeded'))
        elif r.sig or r.timeout:
            res['viol'].append((sig + ':unformatted-side-crash', r.status()))
        res['nt'].append(tuple(sorted((k, repr(v)) for k, v in case.items() if k not in ('w',))))
        if res['viol']:
            res['case'] = case
    except Exception:
        import traceback
        res['viol'].append(('HARNESS', traceback.format_exc()))
        res['case'] = case
    return res


def w_equiv(case):
    """one disc recorded as a flux image vs its sector dump"""
    res = mkres()
    try:
        enc, nt, spt, sides = case['enc'], case['ntracks'], case['spt'], case.get('sides', 1)
        surfs = []
        for s in range(sides):
            img, model = surface(nt, spt, 'S%d' % s, 'SIDE%d' % s)
            surfs.append(img)
        d = run.fresh_dir('c05')
        fname, fdata = build_flux(case, surfs)
        dfsrun.write(d, fname, fdata)
        if sides == 1:
            dname = 'img.ssd' if enc == 'FM' else 'img.sdd'
            dfsrun.write(d, dname, surfs[0])
        else:
            dname = 'img.dsd' if enc == 'FM' else 'img.ddd'
            dfsrun.write(d, dname, disc.interleave(surfs[0], surfs[1], spt))
        sig = 'C05:%s:%s:sides%d' % (case['container'], enc.lower(), sides)
        if case.get('sigx'):
            sig += ':' + case['sigx']
        for s in range(sides):
            drive = 0 if s == 0 else 2
            cmds = case.get('cmds', CMDS)
            a = run_cmds(d, dname, drive, cmds)
            b = run_cmds(d, fname, drive, cmds)
            total = min(nt * spt, 1023)
            for cmd, x, y in zip(cmds, a, b):
                res['n'] += 1
                if cmd[:2] == ['type', '--binary'] and x[0] == 'exit0':
                    want = surfs[s][(4 if total > 6 else 2) * 256:][:len(x[1])]
                    if x[1] != want:
                        res['viol'].append(('HARNESS', 'sector dump read back wrongly'))
                xx, yy = x, y
                if cmd[0] == 'sector-map' and x[0] == 'exit0' and y[0] == 'exit0':
                    # the row width follows the sectors-per-track the dump image was *probed* as (a .sdd of a
                    # 16-sector or tiny disc is probed as 18): compare the per-sector owners, not the layout
                    try:
                        from lib import render
                        xx = (x[0], render.parse_sector_map(x[1]), x[2])
                        yy = (y[0], render.parse_sector_map(y[1]), y[2])
                    except Exception:
                        pass
                if xx[:3] != yy[:3]:
                    what = 'exit' if x[0] != y[0] else ('stdout' if x[1] != y[1] else 'files')
                    bump(res, 'differs')
                    res['viol'].append(('%s:side%d:%s' % (sig, s, what), '%s: %r on %s drive %d gave %s/%dB, on %s %s/%dB; stderr=%r' % (
                        case.get('note', ''), cmd, dname, drive, x[0], len(x[1]), fname, y[0], len(y[1]), y[3])))
                    break
                bump(res, 'same')
        res['nt'].append(tuple(sorted((k, repr(v)) for k, v in case.items() if k not in ('w',))))
        if res['viol']:
            res['case'] = case
    except Exception:
        import traceback
        res['viol'].append(('HARNESS', traceback.format_exc()))
        res['case'] = case
    return res


OPS = {'nop': [0xF0], 'setindex': [0xF1], 'setbitrate0': [0xF2, 0x00], 'setbitrate72': [0xF2, 72], 'setbitrate255': [0xF2, 0xFF]}
# SKIPBITS n (HxC HFEv3: "F3 <n>: skip the first n bits of the following byte"): a writer that places it between
# cells at byte position p emits F3, n, then n junk bits followed by the unchanged remainder of the bit stream
for _n in range(8):
    OPS['skipbits%d' % _n] = [0xF3, _n]


def with_skipbits(stream, pos, n, junk):
    bits = []
    for b in stream[pos:]:
        bits += [(b >> i) & 1 for i in range(8)]
    new = [junk] * n + bits
    return stream[:pos] + bytes([flux.revbits(0xF3), flux.revbits(n)]) + flux.pack_lsb_first(new)


def w_opcodes(case):
    """HFE v3: one opcode inserted at each byte position in [lo,hi) of track 0's stream (4 sectors); the
    sectors read back must be unchanged"""
    res = mkres()
    try:
        enc, spt, nt = case['enc'], 4, 2
        img, model = surface(nt, spt, 'V3', 'V3')
        trs = flux.disc_to_tracks(img, nt, spt, 0, enc)
        if enc == 'FM':
            streams = [flux.pack_lsb_first(flux.fm_to_hfe_cells(b)) for b, _, _ in trs]
        else:
            streams = [flux.pack_lsb_first(b) for b, _, _ in trs]
        d = run.fresh_dir('c05')
        dfsrun.write(d, 'ref.hfe', flux.hfe_image([streams], enc, 3))
        ref = dfsrun.dfs(BIN, ['--file', 'ref.hfe', 'type', '--binary', 'ALL'], d)
        want = img[4 * 256:4 * 256 + (nt * spt - 4) * 256 - 5]
        if ref.status() != 'exit0' or ref.out != want:
            res['viol'].append(('C05:hfe3:%s:no-opcodes:wrong' % enc.lower(), 'v3 image without opcodes read wrongly: %s %r' % (ref.status(), ref.err[:100])))
            res['case'] = case
            return res
        opbytes = bytes(flux.revbits(b) if i == 0 else flux.revbits(b) for i, b in enumerate(OPS[case['op']]))
        for pos in range(case['lo'], min(case['hi'], len(streams[0]) + 1)):
            s0 = streams[0][:pos] + opbytes + streams[0][pos:]
            if case['op'].startswith('skipbits'):
                s0 = with_skipbits(streams[0], pos, OPS[case['op']][1], (pos >> 3) & 1)
            for pos2 in ([None] if not case.get('second') else [pos + len(opbytes) + k for k in range(0, 4)]):
                if pos2 is not None:
                    s0b = s0[:pos2] + bytes([flux.revbits(0xF0)]) + s0[pos2:]
                else:
                    s0b = s0
                dfsrun.write(d, 'op.hfe', flux.hfe_image([[s0b] + streams[1:]], enc, 3))
                r = dfsrun.dfs(BIN, ['--file', 'op.hfe', 'type', '--binary', 'ALL'], d)
                res['n'] += 1
                if r.status() == 'exit0' and r.out == want:
                    bump(res, 'same')
                else:
                    blk = 'block-boundary' if (pos % 256) + len(opbytes) > 256 or (pos % 256 == 255 and len(opbytes) > 1) else 'inside-block'
                    bump(res, 'differs-' + blk)
                    res['viol'].append(('C05:hfe3:%s:opcode:%s:%s' % (enc.lower(), 'skipbits' if case['op'].startswith('skipbits') else ('arg' if len(opbytes) > 1 else 'noarg'), blk),
                                        'HFEv3 %s track: opcode %s inserted at stream byte %d%s: %s, %d bytes (want %d) %r' % (
                                            enc, case['op'], pos, '' if pos2 is None else ' and NOP at %d' % pos2, r.status(), len(r.out), len(want), r.err[:120])))
        res['nt'].append((enc, case['op'], case['lo'], case.get('second')))
        res['ntcount'] = case['hi'] - case['lo']
        if res['viol']:
            res['case'] = case
    except Exception:
        import traceback
        res['viol'].append(('HARNESS', traceback.format_exc()))
        res['case'] = case
    return res


def worker(case):
    return {'equiv': w_equiv, 'opcodes': w_opcodes, 'oneside': w_oneside}[case['w']](case)


CONTAINERS = {'FM': ['hfe1', 'hfe3'], 'MFM': ['hfe1', 'hfe3', 'mfm']}


def fam_matrix(tier):
    """encoding x container x sides {1,2} x tracks {1,2,3,40} x sectors/track {10 | 16,18}"""
    for enc in ('FM', 'MFM'):
        for cont in CONTAINERS[enc]:
            for sides in (1, 2):
                for nt in (1, 2, 3, 40):
                    for spt in ((10,) if enc == 'FM' else (16, 18)):
                        yield {'w': 'equiv', 'enc': enc, 'container': cont, 'sides': sides, 'ntracks': nt, 'spt': spt,
                               'note': '%s %s %d sides %dx%d' % (enc, cont, sides, nt, spt)}
    if tier == 'thorough':
        for cont in ('hfe1', 'mfm'):
            yield {'w': 'equiv', 'enc': 'MFM', 'container': cont, 'sides': 1, 'ntracks': 80, 'spt': 18}
        yield {'w': 'equiv', 'enc': 'FM', 'container': 'hfe1', 'sides': 2, 'ntracks': 80, 'spt': 10}


def fam_layout(tier):
    """file layout the formats leave to the writer: HFE track list in block 1,2,3,6 (header field track_list_offset) with the track data
    starting 1..3 blocks later; last sector of a track ending exactly at the end of the stored track (no trailing gap), all containers"""
    short = [['cat'], ['type', '--binary', 'ALL'], ['dump', 'S.SMALL']]
    for enc in ('FM', 'MFM'):
        spt = 10 if enc == 'FM' else 18
        for cont in ('hfe1', 'hfe3'):
            for lb in (1, 2, 3, 6):
                for skip in (1, 2, 3):
                    for sides in (1, 2):
                        yield {'w': 'equiv', 'enc': enc, 'container': cont, 'sides': sides, 'ntracks': 3, 'spt': spt, 'lut_block': lb,
                               'first_track_block': lb + skip, 'cmds': short, 'sigx': 'track-list-position',
                               'note': 'track list in block %d, track data from block %d' % (lb, lb + skip)}
        for cont in CONTAINERS[enc]:
            for gap3 in (0, 1, 2, 3):
                for sides in (1, 2):
                    for index_mark in (True, False):
                        yield {'w': 'equiv', 'enc': enc, 'container': cont, 'sides': sides, 'ntracks': 2, 'spt': spt,
                               'gaps': {'gap3': gap3, 'tail': 0, 'index_mark': index_mark}, 'lut_exact': True, 'pad': cont == 'hfe3' or sides == 2,
                               'cmds': short, 'sigx': 'no-trailing-gap',
                               'note': 'last record ends %d byte(s) before the end of the track data' % gap3}


def fam_oneside(tier):
    """two-sided flux images with only side 0 / only side 1 formatted (a one-sided disc imaged in a two-headed drive), every container"""
    for enc in ('FM', 'MFM'):
        for cont in CONTAINERS[enc]:
            for fside in (0, 1):
                for fill in (0x00, 0xAA):
                    for nt in ((2, 40) if tier == 'quick' else (1, 2, 3, 40, 80)):
                        yield {'w': 'oneside', 'enc': enc, 'container': cont, 'formatted_side': fside, 'fill': fill, 'ntracks': nt,
                               'spt': 10 if enc == 'FM' else 18}


def fam_orders(tier):
    """physical sector order: all n! orders for 3,4,5 sectors/track; all rotations x coprime interleave steps for 10/16/18; per-track skew"""
    short = [['cat'], ['type', '--binary', 'ALL'], ['sector-map']]
    for enc in ('FM', 'MFM'):
        for cont in CONTAINERS[enc]:
            for n in (3, 4, 5):
                perms = list(itertools.permutations(range(n)))
                if tier == 'quick' and n == 5:
                    perms = perms[::3]
                for p in perms:
                    yield {'w': 'equiv', 'enc': enc, 'container': cont, 'ntracks': 2, 'spt': n, 'order': list(p),
                           'cmds': short, 'sigx': 'order', 'note': 'order %s' % (p,)}
            for n in ((10,) if enc == 'FM' else (16, 18)):
                for step in range(1, n):
                    if math.gcd(step, n) != 1:
                        continue
                    rots = range(n) if tier == 'thorough' else (0, 1, n // 2, n - 1)
                    for rot in rots:
                        yield {'w': 'equiv', 'enc': enc, 'container': cont, 'ntracks': 2, 'spt': n,
                               'order': flux.skewed_order(n, rot, step), 'cmds': short, 'sigx': 'order',
                               'note': 'interleave %d rotation %d' % (step, rot)}
                for sk in (1, 3):
                    yield {'w': 'equiv', 'enc': enc, 'container': cont, 'ntracks': 3, 'spt': n, 'skew': sk, 'cmds': short,
                           'sigx': 'skew', 'note': 'per-track skew %d' % sk}


GAPSETS = {'FM': {'gap1': [1, 2, 16, 23], 'gap2': [10, 11, 12, 18], 'gap3': [8, 9, 21, 28], 'sync': [4, 5, 6, 13]},
           'MFM': {'gap1': [2, 3, 50, 57], 'gap2': [20, 22, 23, 29], 'gap3': [12, 13, 40, 47], 'sync': [8, 9, 12, 19]}}


def fam_gaps(tier):
    """gap1 x gap2 x gap3 x sync lengths from {min, min+1, nominal, nominal+7}^4 on a 4-sector track; one at a time on full tracks; padded/unpadded; with/without index mark"""
    short = [['type', '--binary', 'ALL'], ['cat']]
    for enc in ('FM', 'MFM'):
        g = GAPSETS[enc]
        for cont in CONTAINERS[enc]:
            combos = list(itertools.product(g['gap1'], g['gap2'], g['gap3'], g['sync']))
            if tier == 'quick' and cont != 'hfe1':
                combos = combos[::5]
            for g1, g2, g3, sy in combos:
                yield {'w': 'equiv', 'enc': enc, 'container': cont, 'ntracks': 2, 'spt': 4,
                       'gaps': {'gap1': g1, 'gap2': g2, 'gap3': g3, 'sync': sy}, 'cmds': short, 'sigx': 'gaps',
                       'note': 'gaps %s' % ((g1, g2, g3, sy),)}
            spt = 10 if enc == 'FM' else 18
            for k in g:
                for v in g[k]:
                    yield {'w': 'equiv', 'enc': enc, 'container': cont, 'ntracks': 2, 'spt': spt, 'gaps': {k: v},
                           'cmds': short, 'sigx': 'gaps', 'note': '%s=%d full track' % (k, v)}
            for im in (True, False):
                yield {'w': 'equiv', 'enc': enc, 'container': cont, 'ntracks': 2, 'spt': spt,
                       'gaps': {'index_mark': im}, 'cmds': short, 'sigx': 'indexmark'}
            if cont != 'mfm':
                yield {'w': 'equiv', 'enc': enc, 'container': cont, 'ntracks': 3, 'spt': spt, 'pad': False, 'cmds': short,
                       'sigx': 'unpadded'}


def fam_tracklen(tier):
    """HFE with the LUT carrying the exact track data length (any residue mod 512): gap1 swept so that the end of the last sector moves through every position of the final 512-byte block pair, one and two sides, with and without a trailing gap"""
    short = [['type', '--binary', 'ALL'], ['cat']]
    for enc, per_byte, span in (('FM', 4, 130), ('MFM', 2, 258)):
        step = 1 if tier == 'thorough' else 3
        for g1 in range(0, span, step):
            for sides in (1, 2):
                for tail in (0, 8):
                    for cont in ('hfe1', 'hfe3'):
                        if tier == 'quick' and cont == 'hfe3' and g1 % 9:
                            continue
                        yield {'w': 'equiv', 'enc': enc, 'container': cont, 'sides': sides, 'ntracks': 2, 'spt': 10 if enc == 'FM' else 18,
                               'gaps': {'gap1': g1, 'tail': tail, 'index_mark': False}, 'lut_exact': True, 'cmds': short,
                               'sigx': 'tracklen', 'note': 'exact LUT length, gap1=%d tail=%d' % (g1, tail)}


def stream_len(enc):
    img, _ = surface(2, 4, 'V3', 'V3')
    trs = flux.disc_to_tracks(img, 2, 4, 0, enc)
    b = trs[0][0]
    return len(flux.pack_lsb_first(flux.fm_to_hfe_cells(b) if enc == 'FM' else b))


def fam_opcodes(tier):
    """HFE v3: NOP / SETINDEX / SETBITRATE(arg 0,72,255) inserted at every byte position of a 4-sector track; pairs (opcode + NOP within 4 bytes)"""
    for enc in ('FM', 'MFM'):
        n = stream_len(enc)
        ops = ['nop', 'setindex', 'setbitrate72', 'skipbits3', 'skipbits0', 'skipbits7'] if tier == 'quick' else list(OPS)
        for op in ops:
            step = 64
            for lo in range(0, n + 1, step):
                if tier == 'quick' and op != 'nop' and (lo // step) % 3:
                    # quick: every position for NOP; every third 64-byte window for the others, always including block boundaries
                    if not any((p % 256) in (254, 255, 0) for p in range(lo, lo + step)):
                        continue
                yield {'w': 'opcodes', 'enc': enc, 'op': op, 'lo': lo, 'hi': min(lo + step, n + 1)}
        if tier == 'thorough':
            for lo in range(0, n + 1, 64):
                yield {'w': 'opcodes', 'enc': enc, 'op': 'setbitrate72', 'lo': lo, 'hi': min(lo + 64, n + 1), 'second': True}


FAMILIES = [('M-encoding-container-sides-geometry', fam_matrix), ('O-sector-orders', fam_orders),
            ('G-gaps-sync-padding', fam_gaps), ('L-exact-track-lengths', fam_tracklen), ('V-hfe3-opcodes', fam_opcodes), ('U-one-side-unformatted', fam_oneside), ('Y-writer-chosen-file-layout', fam_layout)]


def main(tier, seed):
    ctx = core.Ctx(PID, tier, 'exploration', seed, quick_s=240, thorough_s=2700)
    ctx.rule = ('Each case records the same disc (catalogue + a file covering every sector) as a sector dump and as a flux '
                'image produced by independent encoders (lib/flux.py) and runs every command on both; stdout, exit status '
                'and extracted trees must be identical. HFEv3: one opcode inserted at every stream byte position must not '
                'change the sectors read. Non-trivial = distinct (encoding, container, sides, geometry, order, gaps) / '
                '(opcode, position).')
    ctx.assumptions = ['SKIPBITS/RAND opcodes are not generated: the HFEv3 specification is not available offline and the '
                       'reading of SKIPBITS is disputed (DESIGN.md section 7)', 'flux encoders written from the IBM/HxC format '
                       'descriptions']
    for name, gen in FAMILIES:
        ctx.family(name, (gen.__doc__ or '').strip())
        if run.Deadline.hit or ctx.timed_out():
            ctx.done(name, False)
            continue
        for res in run.pmap(worker, gen(tier), chunksize=2, deadline=ctx.deadline):
            ctx.absorb(res)
            extra = res.get('ntcount', 0)
            if extra:
                ctx.cur['distinct_nontrivial'] += extra
                ctx.bulk_nt = getattr(ctx, 'bulk_nt', 0) + extra
        ctx.done(name, not run.Deadline.hit)
    ctx.samples = [{'family': 'O', 'enc': 'MFM', 'container': 'mfm', 'spt': 5, 'order': [3, 0, 4, 1, 2]},
                   {'family': 'V', 'enc': 'FM', 'op': 'setbitrate72', 'position': 255}]
    return ctx.finish()


def replay(rec):
    res = worker(rec['case'])
    for sig, text in res['viol']:
        print('replayed violation:', sig, text[:300])
    if any(s == rec['signature'] for s, _ in res['viol']):
        print('VIOLATION property=%s replay=(replayed)' % PID)
        return 1
    print('no violation on replay')
    return 0
