"""C01 — dfs delivers each catalogued file's bytes exactly.
Bounded-exhaustive exploration over catalogue field domains, layouts, entry counts, name spellings,
Opus volume sets and container geometries; oracle = the disc description the image was built from."""
import os, sys, itertools, json
from lib import core, run, disc, render, build, dfsrun

VARIANTS = ['plain']
PID = 'C01'
BIN = 'plain'

NAMES = ['F%d' % i for i in range(70)]


def ent(name, start, length, dir='$', locked=False, load=0x1900, exec=0x8023):
    return [name, dir, locked, load, exec, length, start]


def container(spec, img):
    """Wrap a surface in the container named by spec['ext'] -> (filename, bytes, drive number)."""
    ext = spec['ext']
    if ext in ('ssd', 'sdd'):
        return 'img.' + ext, img
    if ext in ('dsd', 'ddd'):
        # the surface under test is side `side`; the other side carries a valid small catalogue
        other_spec = {'kind': 'acorn', 'tracks': spec['tracks'], 'spt': spec['spt'], 'files': [], 'title': 'OTHER',
                      'tag': 'X', 'total': spec['tracks'] * spec['spt'] if spec['tracks'] * spec['spt'] < 1024 else 1023}
        other, _ = disc.build_spec(other_spec)
        s = spec.get('side', 0)
        sides = [img, other] if s == 0 else [other, img]
        return 'img.' + ext, disc.interleave(sides[0], sides[1], spec['spt'])
    if ext == 'mmb':
        slot = spec.get('slot', 0)
        hdr = disc.mmb_header({slot: 0x0F})
        body = bytearray(hdr)
        body += b'\xE5' * (slot * disc.MMB_DISC)
        body += img.ljust(disc.MMB_DISC, b'\0')
        return 'img.mmb', bytes(body)
    raise ValueError(ext)


def drive_of(spec):
    if spec['ext'] in ('dsd', 'ddd'):
        return 0 if spec.get('side', 0) == 0 else 2
    if spec['ext'] == 'mmb':
        return 2 * spec.get('slot', 0)     # physical allocation: n, n+2, n+4, ...
    return 0


def spell(drive, m, how):
    e = m['e']
    nm = e.name.decode('latin-1')
    d = e.dir.decode('latin-1')
    vol = m['vol'] or ''
    if how == 'novol':      # Opus: a drive number without a letter means volume A
        if vol != 'A':
            return None, None
        return [], ':%d.%s.%s' % (drive, d, nm)
    if how == 'full':
        return [], ':%d%s.%s.%s' % (drive, vol, d, nm)
    if how == 'dir':        # D.NAME with --drive
        return ['--drive', '%d%s' % (drive, vol)], '%s.%s' % (d, nm)
    if how == 'bare':       # NAME with --drive and --dir
        return ['--drive', '%d%s' % (drive, vol), '--dir', d], nm
    if how == 'drv':        # :k.NAME with --dir
        return ['--dir', d], ':%d%s.%s' % (drive, vol, nm)
    raise ValueError(how)


def check_body(fname, d, drive, m, cmds, how, res, sigbase):
    """Run the given rendering commands for one file and compare with the model."""
    body = m['body']
    opts, arg = spell(drive, m, how)
    if opts is None:
        return
    base = ['--file', fname] + opts
    for c in cmds:
        argv = base + {'bin': ['type', '--binary', arg], 'type': ['type', arg], 'list': ['list', arg],
                       'dump': ['dump', arg]}[c]
        r = dfsrun.dfs(BIN, argv, d)
        res['n'] += 1
        bad = None
        if r.status() != 'exit0':
            bad = 'fail:' + r.status()
        elif c == 'bin':
            if r.out != body:
                bad = 'len' if len(r.out) != len(body) else 'content'
        elif c == 'type':
            if r.out != body.replace(b'\r', b'\n'):
                bad = 'content'
        elif c == 'list':
            if r.out != render.expected_list(body):
                # tolerant second opinion for bodies without CR/LF ambiguity
                bad = 'content'
        elif c == 'dump':
            try:
                data, rows = render.parse_dump(r.out)
                if data != body:
                    bad = 'hex'
                else:
                    for off, asc in rows:
                        if asc != render.expected_ascii(body[off:off + 8]):
                            bad = 'ascii'
                            break
                    if not bad and len(rows) != (len(body) + 7) // 8:
                        bad = 'rows'
            except render.ParseError as e:
                bad = 'parse'
        if bad:
            res['out']['bad'] = res['out'].get('bad', 0) + 1
            res['viol'].append(('%s:%s:%s' % (sigbase, c, bad),
                                '%s of %s: %s (exit %s, stderr %r); expected %d bytes, stdout %d bytes' % (
                                    c, arg, bad, r.status(), r.err[:200], len(body), len(r.out))))
        else:
            res['out']['ok'] = res['out'].get('ok', 0) + 1


def check_extract(fname, d, drive, model, vol, res, sigbase, curdir='$'):
    dest = os.path.join(d, 'out')
    os.makedirs(dest, exist_ok=True)
    for f in os.listdir(dest):
        os.unlink(os.path.join(dest, f))
    r = dfsrun.dfs(BIN, ['--file', fname, '--drive', '%d%s' % (drive, vol or ''), '--dir', curdir,
                         'extract-files', 'out'], d)
    res['n'] += 1
    ms = [m for m in model if m['vol'] == vol]
    if r.status() != 'exit0':
        res['out']['bad'] = res['out'].get('bad', 0) + 1
        res['viol'].append((sigbase + ':extract:fail:' + r.status(), 'extract-files failed: %r' % r.err[:300]))
        return
    tree = dfsrun.read_tree(dest)
    bad = None
    want = {}
    for m in ms:
        e = m['e']
        nm = e.name.decode('latin-1')
        hn = nm if e.dir.decode('latin-1') == curdir else '%s.%s' % (e.dir.decode('latin-1'), nm)
        want[hn] = m['body']
    for hn, body in want.items():
        if hn not in tree:
            bad = 'missing'
        elif tree[hn] != body:
            bad = 'len' if len(tree[hn]) != len(body) else 'content'
        if hn + '.inf' not in tree:
            bad = bad or 'noinf'
    extra = set(tree) - set(want) - set(x + '.inf' for x in want)
    if extra:
        bad = bad or 'extra'
    if bad:
        res['out']['bad'] = res['out'].get('bad', 0) + 1
        res['viol'].append((sigbase + ':extract:' + bad, 'extract-files: %s; got %s want %s' % (
            bad, sorted(tree)[:8], sorted(want)[:8])))
    else:
        res['out']['ok'] = res['out'].get('ok', 0) + 1


def run_case(case):
    """case: {'spec':..., 'targets': [indices]|'all', 'cmds': [...], 'how': [...], 'extract': bool, 'sig': str}"""
    res = {'n': 0, 'out': {}, 'viol': [], 'nt': [], 'case': None}
    try:
        spec = case['spec']
        img, model = disc.build_spec(spec)
        fname, data = container(spec, img)
        d = run.fresh_dir('c01')
        dfsrun.write(d, fname, data)
        drive = drive_of(spec)
        targets = range(len(model)) if case['targets'] == 'all' else case['targets']
        for ti in targets:
            m = model[ti]
            for how in case.get('how', ['full']):
                check_body(fname, d, drive, m, case['cmds'], how, res, case['sig'])
            e = m['e']
            if e.start >= 256 or e.length >= 65536 or e.length % 256 or m['vol'] not in (None, 'A'):
                res['nt'].append((spec['kind'], m['vol'], e.start, e.length, spec['ext'], spec['tracks'], spec['spt'],
                                  len(model), spec.get('side', 0), spec.get('slot', 0)))
        if case.get('extract'):
            for vol in sorted(set(m['vol'] for m in model), key=lambda x: x or ''):
                check_extract(fname, d, drive, model, vol, res, case['sig'])
        if res['viol']:
            res['case'] = case
    except Exception as ex:
        import traceback
        res['viol'].append(('HARNESS', traceback.format_exc()))
        res['case'] = case
    return res


# ----------------------------------------------------------------------------- families
LEN_FULL = [0, 1, 255, 256, 257, 511, 512, 513, 65535, 65536, 65537, 0x20000, 0x30000, 0x3FD00 - 1, 0x3FD00]


def fam_f1(tier):
    """single file, every legal start sector, boundary lengths"""
    q = tier == 'quick'
    lens_small = [0, 1, 255, 256, 257, 511, 512, 513]
    for kind in ('acorn', 'watford', 'opus'):
        first = {'acorn': 2, 'watford': 4, 'opus': 0}[kind]
        total = 1023 if kind != 'opus' else 1008          # opus: one volume of 56 tracks
        step = 1
        for start in range(first, total, step):
            room = (total - start) * 256
            if q:
                lens = [l for l in (1, 257, 65537) if l <= room]
                if kind == 'watford' and start % 2:
                    continue
                if kind == 'opus' and start % 3:
                    continue
            else:
                lens = [l for l in LEN_FULL if l <= room]
                if room not in lens:
                    lens.append(room)          # file ending exactly at the end of the volume
                if room - 255 > 0 and room - 255 not in lens:
                    lens.append(room - 255)
            for ln in lens:
                if kind == 'opus':
                    for L in (['A', 'C'] if q else 'ABCDEFGH'):
                        if q and L == 'C' and start % 12:
                            continue
                        # volume L under test; a small volume A always present (volume lookups
                        # default to A), other volumes 1 track each before it
                        vols = {}
                        t = 1
                        for X in 'ABCDEFGH':
                            if X == L:
                                continue
                            if X < L or X == 'A':
                                vols[X] = {'track': t, 'files': [ent('PAD' + X, 0, 10)], 'title': 'V' + X}
                                t += 1
                        vols[L] = {'track': t, 'files': [ent('DATA', start, ln)], 'total': total, 'title': 'V' + L}
                        if t + 56 > 80:
                            continue
                        spec = {'kind': 'opus', 'tracks': 80, 'spt': 18, 'ext': 'sdd', 'vols': vols}
                        big = ln > 4096
                        yield {'spec': spec, 'targets': [i for i, X in enumerate(sorted(vols)) if X == L],
                               'cmds': ['bin'] if big and start % 64 else ['bin', 'type', 'list', 'dump'],
                               'sig': 'C01:F1:opus', 'extract': (start % 128 == 0)}
                else:
                    files = [ent('DATA', start, ln)]
                    spec = {'kind': kind, 'tracks': 80, 'spt': 18, 'ext': 'sdd', 'total': total, 'title': 'T'}
                    big = ln > 4096
                    cmds = ['bin'] if big and start % 64 else ['bin', 'type', 'list', 'dump']
                    if kind == 'acorn':
                        spec['files'] = files
                        yield {'spec': spec, 'targets': [0], 'cmds': cmds, 'sig': 'C01:F1:acorn',
                               'extract': (start % 128 == 2)}
                    else:
                        nsec = (ln + 255) // 256
                        for where in (1, 2):
                            s2 = dict(spec)
                            s2['files'] = files if where == 1 else []
                            s2['files2'] = files if where == 2 else []
                            # a one-sector companion in the other catalogue half, when there is room
                            if where == 1 and start + nsec <= 1022:
                                s2['files2'] = [ent('HI', 1022, 200)]
                            if where == 2 and start > 4:
                                s2['files'] = [ent('LO', 4, 200)]
                            yield {'spec': s2, 'targets': 'all', 'cmds': cmds, 'sig': 'C01:F1:watford:cat%d' % where,
                                   'extract': (start % 128 == 4)}


def fam_f2(tier):
    """all layouts of <=3 files on a tiny disc"""
    T = 9 if tier == 'quick' else 12
    lens_for = {0: [0], 1: [1, 256], 2: [257, 512]}
    for kind in ('acorn', 'watford'):
        first = 2 if kind == 'acorn' else 4
        for lay in disc.layouts(first, T + (2 if kind == 'watford' else 0), [0, 1, 2], 3):
            if not lay:
                continue
            # choose byte lengths: enumerate all combinations of the per-size options
            for combo in itertools.product(*[lens_for[n] for (_, n) in lay]):
                # catalogue order is descending start
                files = [ent(NAMES[i], st, ln) for i, ((st, n), ln) in enumerate(zip(lay, combo))]
                files.reverse()
                spec = {'kind': kind, 'tracks': 40, 'spt': 10, 'ext': 'ssd',
                        'total': T + (2 if kind == 'watford' else 0), 'files': files, 'files2': []}
                yield {'spec': spec, 'targets': 'all', 'cmds': ['bin', 'type', 'list', 'dump'],
                       'sig': 'C01:F2:' + kind, 'extract': True}
                if kind == 'watford' and len(files) >= 2:
                    # split: higher files into the second catalogue
                    for k in range(1, len(files) + 1):
                        s2 = dict(spec)
                        s2['files2'] = files[:k]
                        s2['files'] = files[k:]
                        yield {'spec': s2, 'targets': 'all', 'cmds': ['bin'], 'sig': 'C01:F2:watford:split',
                               'extract': True}


def fam_f2b(tier):
    """zero-length files at every position including the first sector past a full disc"""
    for kind, first in (('acorn', 2), ('watford', 4)):
        for T in (first + 1, 12, 400):
            for st in sorted(set([first, first + 1, T - 1, T])):
                # the disc is otherwise full: one file from `first` to the end
                files = [ent('EMPTY', st, 0), ent('FULL', first, (T - first) * 256)]
                if st < first:
                    continue
                files.sort(key=lambda f: -f[6])
                spec = {'kind': kind, 'tracks': 40, 'spt': 10, 'ext': 'ssd', 'total': T, 'files': files, 'files2': []}
                yield {'spec': spec, 'targets': 'all', 'cmds': ['bin', 'type', 'list', 'dump'], 'sig': 'C01:F2b:empty-file:' + kind,
                       'extract': True}


def fam_f3(tier):
    """entry counts 0..31 / every split i+j of the Watford halves"""
    def mk(n, first):
        # n files of 1..2 sectors packed from `first`, catalogue order = descending start
        fs = []
        pos = first
        for i in range(n):
            ln = [1, 256, 257, 300][i % 4]
            fs.append(ent(NAMES[i], pos, ln, dir='$' if i % 3 else 'A', locked=bool(i % 2)))
            pos += (ln + 255) // 256
        fs.reverse()
        return fs
    counts = range(0, 32) if tier == 'thorough' else [0, 1, 2, 30, 31]
    for n in counts:
        spec = {'kind': 'acorn', 'tracks': 40, 'spt': 10, 'ext': 'ssd', 'files': mk(n, 2)}
        yield {'spec': spec, 'targets': 'all', 'cmds': ['bin'], 'sig': 'C01:F3:acorn', 'extract': True}
    pairs = [(i, j) for i in range(0, 32) for j in range(0, 32)] if tier == 'thorough' else \
        [(0, 0), (1, 0), (0, 1), (1, 1), (31, 0), (0, 31), (31, 31), (31, 1), (2, 30), (30, 31)]
    for (i, j) in pairs:
        fs = mk(i + j, 4)
        spec = {'kind': 'watford', 'tracks': 40, 'spt': 10, 'ext': 'ssd', 'files': fs[j:], 'files2': fs[:j]}
        yield {'spec': spec, 'targets': 'all', 'cmds': ['bin'], 'sig': 'C01:F3:watford:%s' % (
            'cat2empty' if j == 0 and i else 'cat1empty' if i == 0 and j else 'both'), 'extract': True}


def fam_f4(tier):
    """every spelling of a name x defaults"""
    files = [ent('AB', 20, 300, dir='$'), ent('AB', 18, 10, dir='B'), ent('Z', 16, 1, dir='b'),
             ent('LONGNAM', 12, 700, dir='!'), ent('x', 10, 256, dir='$'), ent('!BOOT', 2, 17, dir='$')]
    for kind in ('acorn', 'watford'):
        for ext, tr, spt in (('ssd', 40, 10), ('dsd', 80, 10)):
            for side in ((0, 1) if ext == 'dsd' else (0,)):
                fl = [list(f) for f in files]
                if kind == 'watford':
                    for f in fl:
                        f[6] += 2
                spec = {'kind': kind, 'tracks': tr, 'spt': spt, 'ext': ext, 'files': fl, 'files2': [], 'side': side}
                yield {'spec': spec, 'targets': 'all', 'cmds': ['bin'], 'how': ['full', 'dir', 'bare', 'drv'],
                       'sig': 'C01:F4:%s:%s' % (kind, ext), 'extract': True}
    # Opus: all volumes, every spelling
    vols = {}
    for i, L in enumerate('ABCDEFGH'):
        vols[L] = {'track': 1 + 2 * i, 'files': [ent('AB', 5, 300 + i), ent('V' + L, 0, 257, dir='Q')], 'title': 'V' + L}
    spec = {'kind': 'opus', 'tracks': 40, 'spt': 18, 'ext': 'sdd', 'vols': vols}
    yield {'spec': spec, 'targets': 'all', 'cmds': ['bin'], 'how': ['full', 'dir', 'bare', 'drv'],
           'sig': 'C01:F4:opus', 'extract': True}


def fam_f5(tier):
    """Opus: prefix volume sets A..X x volume sizes x file at first/interior/last sector"""
    sizes = [1, 2, 3] if tier == 'quick' else [1, 2, 3, 5, 10]
    for nv in range(2, 9):
        for sz in sizes:
            for tracks in (40, 80):
                if 1 + nv * sz > tracks:
                    continue
                vols = {}
                for i, L in enumerate('ABCDEFGH'[:nv]):
                    ext = sz * 18
                    fs = [ent('LAST', ext - 1, 256), ent('MID', ext // 2, 200), ent('FIRST', 0, 257)]
                    if sz == 1:
                        fs = [ent('LAST', ext - 1, 256), ent('MID', 9, 200), ent('FIRST', 0, 257)]
                    vols[L] = {'track': 1 + i * sz, 'files': fs, 'total': ext, 'title': 'V' + L}
                # last volume extends to the end of the disc but its catalogue total stays sz*18
                spec = {'kind': 'opus', 'tracks': tracks, 'spt': 18, 'ext': 'sdd', 'vols': vols}
                yield {'spec': spec, 'targets': 'all', 'cmds': ['bin', 'dump'], 'sig': 'C01:F5:opus:prefix',
                       'extract': True}
    # volumes whose start tracks are not in letter order (the table maps each letter to any track): every permutation
    # of the track assignment for 2 and 3 volumes, and some for 4
    import itertools as _it
    for letters in (['A', 'B'], ['A', 'B', 'C'], ['A', 'C', 'F'], ['A', 'B', 'C', 'D']):
        starts = [1 + 3 * i for i in range(len(letters))]
        perms = list(_it.permutations(starts))
        if len(letters) == 4:
            perms = perms[::5]
        for perm in perms:
            vols = {}
            for L, trk in zip(letters, perm):
                vols[L] = {'track': trk, 'files': [ent('LAST', 53, 256), ent('MID', 20, 700), ent('F' + L, 0, 257)], 'total': 54, 'title': 'V' + L}
            spec = {'kind': 'opus', 'tracks': 40, 'spt': 18, 'ext': 'sdd', 'vols': vols}
            yield {'spec': spec, 'targets': 'all', 'cmds': ['bin'], 'how': ['full', 'dir', 'novol'],
                   'sig': 'C01:F5:opus:track-order' + ('' if list(perm) == sorted(perm) else ':unsorted'), 'extract': True}
    # separately signed: single-volume disc and non-prefix volume sets
    for letters in (['A'], ['A', 'C'], ['A', 'H'], ['A', 'B', 'D'], ['A', 'C', 'E', 'G'], ['A', 'B', 'C', 'H']):
        vols = {}
        for i, L in enumerate(letters):
            vols[L] = {'track': 1 + 2 * i, 'files': [ent('F', 3, 300)], 'total': 36, 'title': 'V' + L}
        spec = {'kind': 'opus', 'tracks': 40, 'spt': 18, 'ext': 'sdd', 'vols': vols}
        kindsig = 'single' if len(letters) == 1 else 'nonprefix'
        yield {'spec': spec, 'targets': 'all', 'cmds': ['bin'], 'how': ['full', 'dir', 'bare', 'drv', 'novol'],
               'sig': 'C01:F5:opus:' + kindsig, 'extract': True}


def fam_f6(tier):
    """fixed 3-file disc on every geometry x sector-dump container"""
    for tracks in (35, 40, 80):
        for spt in (10, 16, 18):
            n = tracks * spt
            total = min(n, 1023)
            files = [ent('END', total - 2, 300), ent('MID', total // 2, 1000), ent('BEG', 2, 513)]
            exts = ['ssd', 'dsd'] if spt == 10 else ['sdd', 'ddd']
            if spt == 10 and tracks == 80:
                exts.append('mmb')
            for ext in exts:
                for side in ((0, 1) if ext[0] == 'd' else (0,)):
                    for kind in ('acorn', 'watford'):
                        if kind == 'watford' and ext == 'ddd' and spt == 16 and side == 1:
                            # out of domain: the bytes of such an image are equally a well-formed 18-sector
                            # image (side 1's second Watford catalogue sits where an 18-sector side-1
                            # catalogue would be), see DESIGN.md section 8
                            continue
                        fl = [list(f) for f in files]
                        if kind == 'watford':
                            fl[2][6] = 4
                        spec = {'kind': kind, 'tracks': tracks, 'spt': spt, 'ext': ext, 'files': fl, 'files2': [],
                                'total': total, 'side': side, 'slot': 3 if ext == 'mmb' else 0}
                        yield {'spec': spec, 'targets': 'all', 'cmds': ['bin', 'dump'],
                               'sig': 'C01:F6:%s:%s:%dx%d' % (kind, ext, tracks, spt), 'extract': True}


FAMILIES = [('F2b-empty-files', fam_f2b), ('F3-entry-count', fam_f3), ('F4-name-spelling', fam_f4), ('F5-opus-volumes', fam_f5),
            ('F6-geometry-container', fam_f6), ('F2-all-layouts', fam_f2), ('F1-start-length-domain', fam_f1)]


def main(tier, seed):
    ctx = core.Ctx(PID, tier, 'exploration', seed, quick_s=200, thorough_s=2400)
    ctx.rule = ('Every case is a generated well-formed disc (description -> image); every catalogued file is read '
                'back through the real dfs binary (type --binary, type, list, dump, extract-files) and compared with '
                'the description. Non-trivial = file with start sector >= 256, or length >= 65536, or length not a '
                'multiple of 256, or in an Opus volume other than A; distinct by (variant, volume, start, length, '
                'container, geometry, entry count, side, slot).')
    ctx.assumptions = ['plain (RelWithDebInfo-equivalent) build of /repo working tree', 'LC_ALL=C',
                       'reference model lib/disc.py + lib/render.py']
    ctx.explore(FAMILIES, run_case, tier)
    ctx.samples = SAMPLES[:]
    return ctx.finish()


SAMPLES = [
    {'family': 'F1', 'spec': {'kind': 'acorn', 'ext': 'sdd', 'tracks': 80, 'spt': 18, 'total': 1023,
                               'files': [['DATA', '$', False, 0x1900, 0x8023, 65537, 700]]},
     'commands': ['type --binary :0.$.DATA', 'type', 'list', 'dump', 'extract-files']},
    {'family': 'F2', 'spec': {'kind': 'watford', 'ext': 'ssd', 'total': 11,
                               'files2': [['F2', '$', False, 0, 0, 257, 8]], 'files': [['F1', '$', False, 0, 0, 0, 8],
                                                                                          ['F0', '$', False, 0, 0, 256, 4]]}},
]


def replay(rec):
    res = run_case(rec['case'])
    for sig, text in res['viol']:
        print('replayed violation:', sig, text)
    if any(s == rec['signature'] for s, _ in res['viol']):
        print('VIOLATION property=%s replay=(replayed)' % PID)
        return 1
    print('no violation on replay')
    return 0
