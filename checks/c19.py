"""C19 — behaviour does not depend on whether assertions are compiled in.
Differential between builds: the same inputs (C01-C03 style well-formed discs/programs at reduced bounds,
the hostile sets of C07/C08, the full bbcbasic_to_text command-line matrix) are run on the NDEBUG build and
on the assertion-enabled build; unless the latter stops on a failed assertion, stdout and exit status must
be equal.  The NDEBUG builds are additionally run under MemorySanitizer (C tool) / valgrind (dfs) so that
initialisation living inside an assert shows even when the garbage is benign."""
import os, itertools, re
from lib import core, run, dfsrun, build, images, mcb, basic_ref as R
from checks import c18, c08, c07

VARIANTS = ['plain', 'plain-assert', 'msan', 'msan-assert']
PID = 'C19'


def mkres():
    return {'n': 0, 'out': {}, 'viol': [], 'nt': [], 'case': None}


def bump(res, k, n=1):
    res['out'][k] = res['out'].get(k, 0) + n


def assert_stop(r):
    return r.sig == 6 and re.search(rb"Assertion [`'].*' failed", r.err) is not None


def compare(res, sig, note, a, b, trees=None):
    """a = NDEBUG run, b = assertion-enabled run"""
    res['n'] += 1
    if assert_stop(b):
        bump(res, 'assert-build-stopped-on-assertion')
        return
    if (a.status(), a.out) != (b.status(), b.out) or (trees and trees[0] != trees[1]):
        what = 'exit' if a.status() != b.status() else ('stdout' if a.out != b.out else 'files')
        bump(res, 'differs')
        res['viol'].append(('%s:%s' % (sig, what), '%s: NDEBUG %s/%dB, assertions %s/%dB; stderr NDEBUG %r / assert %r' % (
            note, a.status(), len(a.out), b.status(), len(b.out), a.err[-100:], b.err[-100:])))
    else:
        bump(res, 'same-' + a.status())


def w_dfs(case):
    res = mkres()
    try:
        d = run.fresh_dir('c19')
        os.makedirs(os.path.join(d, 'out'))
        data = c07.build_data(case) if 'data' in case else c18.image_set()[case['image']]
        fname = case.get('name') or case['image']
        dfsrun.write(d, fname, data)
        for cmd in case['cmds']:
            runs = []
            trees = []
            for v in ('plain', 'plain-assert'):
                for x in os.listdir(os.path.join(d, 'out')):
                    os.unlink(os.path.join(d, 'out', x))
                runs.append(dfsrun.dfs(v, ['--file', fname] + cmd, d, timeout=30))
                trees.append(dfsrun.read_tree(os.path.join(d, 'out')))
            compare(res, 'C19:dfs:%s' % case['sig'], '%s %r' % (case.get('note', fname), cmd), runs[0], runs[1], trees)
            res['nt'].append((fname, case.get('note'), tuple(cmd)))
        if res['viol']:
            res['case'] = case
    except Exception:
        import traceback
        res['viol'].append(('HARNESS', traceback.format_exc()))
        res['case'] = case
    return res


def w_dfs_cli(case):
    res = mkres()
    try:
        d = run.fresh_dir('c19')
        os.makedirs(os.path.join(d, 'out'))
        b = c07.bases()
        dfsrun.write(d, 'v.ssd', b['ssd'])
        dfsrun.write(d, 'v.mmb', b['mmb'])
        dfsrun.write(d, 'o.sdd', b['sdd-opus'])
        for argv in case['argvs']:
            a = dfsrun.dfs('plain', argv, d, timeout=30)
            bb = dfsrun.dfs('plain-assert', argv, d, timeout=30)
            compare(res, 'C19:dfs:cli', 'argv %r' % (argv,), a, bb)
            res['nt'].append(tuple(argv))
        if res['viol']:
            res['case'] = case
    except Exception:
        import traceback
        res['viol'].append(('HARNESS', traceback.format_exc()))
        res['case'] = case
    return res


def w_basic_cli(case):
    res = mkres()
    try:
        d = run.fresh_dir('c19')
        dfsrun.write(d, 'good.bbc', c08.GOOD)
        dfsrun.write(d, 'goodz.bbc', c08.GOODZ)
        dfsrun.write(d, 'bad.bbc', c08.GOOD[:6])
        os.makedirs(os.path.join(d, 'adir'))
        for argv, stdin in case['items']:
            sin = bytes.fromhex(stdin)
            a = dfsrun.basic('plain', argv, cwd=d, stdin=sin)
            b = dfsrun.basic('plain-assert', argv, cwd=d, stdin=sin)
            # usage texts print argv[0], which differs between build directories
            a.out = a.out.replace(build.exe('plain', 'bbcbasic_to_text').encode(), b'PROG')
            b.out = b.out.replace(build.exe('plain-assert', 'bbcbasic_to_text').encode(), b'PROG')
            compare(res, 'C19:basic:cli', 'argv %r' % (argv,), a, b)
            # uninitialised option state in the NDEBUG build
            m = dfsrun.basic('msan', argv, cwd=d, stdin=sin)
            m.out = m.out.replace(build.exe('msan', 'bbcbasic_to_text').encode(), b'PROG')
            res['n'] += 1
            k, fr = mcb.san_kind(m.err)
            if k and k.startswith('msan'):
                bump(res, 'msan-report')
                res['viol'].append(('C19:basic:ndebug-uninitialised:%s' % fr, 'argv %r: MemorySanitizer on the NDEBUG build: %s' % (argv, m.err[-300:].decode('latin-1'))))
            elif (m.status(), m.out) != (a.status(), a.out):
                res['viol'].append(('C19:basic:msan-build-differs', 'argv %r' % (argv,)))
            else:
                bump(res, 'msan-clean')
            res['nt'].append((tuple(argv), stdin[:20]))
        if res['viol']:
            res['case'] = case
    except Exception:
        import traceback
        res['viol'].append(('HARNESS', traceback.format_exc()))
        res['case'] = case
    return res


def w_basic_inputs(case):
    """in-process decode of many inputs on both builds"""
    res = mkres()
    try:
        dialect = case['dialect']
        if case['mode'] == 'short':
            files = [b''] + [bytes([a]) for a in range(256)] + [bytes([a, b]) for a in case['firsts'] for b in range(256)]
        elif case['mode'] == 'framing':
            # every single-byte substitution (all 256 values) at every position of a small program, and every prefix of it
            seed = R.frame(dialect, [(10, b'\xE3I=1\xB8' + b'9'), (0xFE00 + 7, b'\xF1"x\xE3"'), (30, b'\xED:\xE5\x8D\x54\x4A\x40')])
            files = [seed[:k] for k in range(len(seed) + 1)]
            for pos in range(case['lo'], min(case['hi'], len(seed))):
                for v in range(256):
                    if v != seed[pos]:
                        files.append(seed[:pos] + bytes([v]) + seed[pos + 1:])
        else:
            t = R.Tables(dialect)
            bodies = []
            for a in case['firsts']:
                for b in range(1, 256):
                    for c in (bytes([a, b]), b'"' + bytes([a, b]) + b'"'):
                        bodies.append(c)
            progs = []
            for i in range(0, len(bodies), 50):
                progs.append(R.frame(dialect, [(10 + j, body) for j, body in enumerate(bodies[i:i + 50])]))
            files = progs
        recs = [(dialect, 7, files[i:i + 100]) for i in range(0, len(files), 100)]
        outs = {}
        for v in ('plain', 'plain-assert'):
            got = []
            for idx, rec, results, crash in mcb.run_all(v, recs):
                if crash:
                    got.append(('crash', crash[0], crash[1]))
                    got += [('lost',)] * (len(rec[2]) - len(results or []) - 1)
                    for x in (results or []):
                        got.append((x[0], x[1]))
                else:
                    got += [(x[0], x[1]) for x in results]
            outs[v] = got
        a, b = outs['plain'], outs['plain-assert']
        res['n'] += len(files)
        if len(a) != len(b) or a != b:
            k = next((i for i in range(min(len(a), len(b))) if a[i] != b[i]), -1)
            if any(x and x[0] == 'crash' and x[2] and x[2].startswith('assert') for x in b):
                bump(res, 'assert-build-stopped-on-assertion')
            else:
                bump(res, 'differs')
                res['viol'].append(('C19:basic:inputs:%s' % case['mode'], 'dialect %s: result %d differs between builds: %r vs %r' % (
                    dialect, k, a[k][:2] if k >= 0 else None, b[k][:2] if k >= 0 else None)))
        else:
            bump(res, 'same', len(files))
        res['ntcount'] = len(files)
        res['nt'].append((dialect, case['mode'], tuple(case.get('firsts', [case.get('lo')])[:2])))
        if res['viol']:
            res['case'] = case
    except Exception:
        import traceback
        res['viol'].append(('HARNESS', traceback.format_exc()))
        res['case'] = case
    return res


def w_valgrind(case):
    """the NDEBUG dfs build under valgrind memcheck: no use of uninitialised values"""
    res = mkres()
    try:
        d = run.fresh_dir('c19')
        os.makedirs(os.path.join(d, 'out'))
        for fname, data in c18.image_set().items():
            dfsrun.write(d, fname, data)
        for argv in case['argvs']:
            r = run.run(['valgrind', '-q', '--error-exitcode=77', '--track-origins=no', build.exe('plain', 'dfs')] + argv, cwd=d, timeout=120)
            res['n'] += 1
            if r.exit == 77 or b'uninitialised' in r.err or b'Invalid read' in r.err or b'Invalid write' in r.err:
                m = re.search(rb'(?:at|by) 0x[0-9A-F]+: (\S+) \(([\w.]+):(\d+)\)', r.err)
                bump(res, 'valgrind-report')
                res['viol'].append(('C19:dfs:ndebug-valgrind:%s' % (m.group(1).decode()[:40] if m else '?'), 'argv %r: %s' % (argv, r.err[-400:].decode('latin-1'))))
            else:
                bump(res, 'valgrind-clean')
            res['nt'].append(tuple(argv))
        if res['viol']:
            res['case'] = case
    except Exception:
        import traceback
        res['viol'].append(('HARNESS', traceback.format_exc()))
        res['case'] = case
    return res


def worker(case):
    return {'dfs': w_dfs, 'dfscli': w_dfs_cli, 'basiccli': w_basic_cli, 'basicin': w_basic_inputs, 'valgrind': w_valgrind}[case['w']](case)


def fam_dfs_images(tier):
    """valid images of every container (incl. flux, gz) and the hostile set x every command"""
    for fname in sorted(c18.image_set()):
        for i in range(0, len(c18.CMDS), 5):
            yield {'w': 'dfs', 'image': fname, 'cmds': c18.CMDS[i:i + 5], 'sig': 'hostile' if fname.startswith('h_') else 'valid'}


def fam_dfs_mutations(tier):
    """C07's structural mutations: truncations and count/size-field pokes (all 256 values for the count fields)"""
    n = 0
    for gen in (c07.fam_trunc, c07.fam_poke):
        for case in gen('quick'):
            if case.get('w') != 'file':
                continue
            n += 1
            if tier == 'quick' and n % 6:
                continue
            c = dict(case)
            c['w'] = 'dfs'
            c['cmds'] = [['cat'], ['info', '#.*'], ['space'], ['sector-map']]
            c['sig'] = 'mutation'
            yield c


def fam_dfs_cli(tier):
    """the dfs command x argument matrix of C07"""
    n = 0
    for case in c07.fam_cli('quick'):
        n += 1
        if tier == 'quick' and n % 3:
            continue
        yield {'w': 'dfscli', 'argvs': case['argvs']}


def fam_basic_cli(tier):
    """the full bbcbasic_to_text command-line matrix (no --dialect, every dialect name, every --listo form, every input shape)"""
    items = []
    seen = set()
    for case in c08.fam_cli('thorough'):
        key = (tuple(case['argv']), case.get('stdin'))
        if key in seen:
            continue
        seen.add(key)
        items.append((case['argv'], case.get('stdin') or ''))
    if tier == 'quick':
        items = [x for i, x in enumerate(items) if i % 3 == 0 or '--dialect' not in x[0]]
    for i in range(0, len(items), 25):
        yield {'w': 'basiccli', 'items': items[i:i + 25]}


def fam_basic_inputs(tier):
    """all byte strings of length <=2 as input files, all byte pairs as line bodies, and every single-byte substitution (256 values) at every position plus every prefix of a three-line program (line-number high bytes 0x00..0xFF, lengths, terminators), per distinct dialect, in-process on both builds"""
    for dialect in R.DISTINCT:
        for lo in range(0, 256, 32):
            yield {'w': 'basicin', 'mode': 'short', 'dialect': dialect, 'firsts': list(range(lo, lo + 32))}
        step = 64 if tier == 'quick' else 16
        for lo in range(1, 256, step):
            yield {'w': 'basicin', 'mode': 'pairs', 'dialect': dialect, 'firsts': list(range(lo, min(lo + (8 if tier == 'quick' else 16), 256)))}
        for lo in range(0, 48, 8):
            yield {'w': 'basicin', 'mode': 'framing', 'dialect': dialect, 'lo': lo, 'hi': lo + 8}


def fam_valgrind(tier):
    """NDEBUG dfs under valgrind: every command on representative valid and hostile images"""
    argvs = []
    for fname in ('v.ssd', 'w.ssd', 'o.sdd', 'v.dsd', 'v.mmb', 'v.hfe', 'v3.hfe', 'v.mfm', 'z.ssd.gz', 'h_trunc.hfe', 'h_count.ssd', 'h_flux.mfm', 'h_status.mmb'):
        cmds = c18.CMDS if tier == 'thorough' or fname in ('v.ssd', 'o.sdd') else c18.CMDS[:3] + [['sector-map'], ['space']]
        for cmd in cmds:
            argvs.append(['--file', fname] + cmd)
    argvs += [['--help'], ['help'], [], ['--ui', 'help', 'cat'], ['--drive', '0A', '--file', 'o.sdd', 'cat'], ['--verbose', '--file', 'v.hfe', 'cat']]
    for i in range(0, len(argvs), 6):
        yield {'w': 'valgrind', 'argvs': argvs[i:i + 6]}


FAMILIES = [('BC-basic-command-lines', fam_basic_cli), ('DI-dfs-images-commands', fam_dfs_images), ('DC-dfs-command-lines', fam_dfs_cli),
            ('V-ndebug-dfs-under-valgrind', fam_valgrind), ('BI-basic-inputs-in-process', fam_basic_inputs), ('DM-dfs-structural-mutations', fam_dfs_mutations)]


def main(tier, seed):
    ctx = core.Ctx(PID, tier, 'exploration', seed, quick_s=260, thorough_s=2400)
    ctx.rule = ('Differential between build configurations: every input / command line is executed on the NDEBUG build and on '
                'the assertion-enabled build of the same sources; unless the assertion build stops with SIGABRT on a failed '
                'assertion, stdout and exit status (and extracted files) must be identical. In addition the NDEBUG builds run '
                'under MemorySanitizer (bbcbasic_to_text) and valgrind memcheck (dfs) and must show no use of uninitialised '
                'memory. Non-trivial = every distinct input / command line.')
    ctx.assumptions = ['gcc -O2 builds with and without -DNDEBUG; clang MSan builds for the C tool']
    for name, gen in FAMILIES:
        ctx.family(name, (gen.__doc__ or '').strip())
        if run.Deadline.hit or ctx.timed_out():
            ctx.done(name, False)
            continue
        for res in run.pmap(worker, gen(tier), chunksize=1, deadline=ctx.deadline):
            ctx.absorb(res)
            extra = res.get('ntcount', 0)
            if extra:
                ctx.cur['distinct_nontrivial'] += extra
                ctx.bulk_nt = getattr(ctx, 'bulk_nt', 0) + extra
        ctx.done(name, not run.Deadline.hit)
    ctx.samples = [{'tool': 'bbcbasic_to_text', 'argv': ['--listo', '3', 'good.bbc'], 'builds': ['plain', 'plain-assert', 'msan']},
                   {'tool': 'dfs', 'image': 'hfe with header byte 9 := 0', 'cmd': ['cat']}]
    return ctx.finish()


def replay(rec):
    res = worker(rec['case'])
    for sig, text in res['viol']:
        print('replayed violation:', sig, text[:300])
    if any(s == rec['signature'] for s, _ in res['viol']):
        print('VIOLATION property=%s replay=(replayed)' % PID)
        return 1
    print('no violation on replay')
    return 0
