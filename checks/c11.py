"""C11 — exit status 0 implies the output was completely written.
Fault enumeration: for every command of both tools, the output device refuses writes from byte offset N
for every N in 0..len(output) (RLIMIT_FSIZE on a regular stdout file; per extracted file for extract-*),
plus /dev/full and a closed pipe with SIGPIPE ignored/default."""
import os, subprocess, resource, signal
from lib import core, run, dfsrun, build, images, disc, basic_ref as R

VARIANTS = ['plain']
PID = 'C11'
BIN = 'plain'


def mkres():
    return {'n': 0, 'out': {}, 'viol': [], 'nt': [], 'case': None}


def bump(res, k):
    res['out'][k] = res['out'].get(k, 0) + 1


def big_disc():
    """400-sector disc: sector-map ~6 kB, a 9000-byte text file, 20 files for cat/info."""
    files = []
    pos = 2
    for i in range(20):
        ln = 9000 if i == 0 else 300 + 17 * i
        files.append(images.E('FILE%02d' % i, pos, ln, dir='$' if i % 3 else 'D', locked=bool(i % 2)))
        pos += (ln + 255) // 256
    files.reverse()
    spec = {'kind': 'acorn', 'tracks': 40, 'spt': 10, 'files': files, 'title': 'BIGDISC', 'tag': 'B'}
    img, model = disc.build_spec(spec)
    # make FILE00 a text file with CRs so that list/type are interesting
    img = bytearray(img)
    text = (b'line of text number %d\r' * 1)
    body = b''.join(b'line of text number %04d\r' % i for i in range(400))[:9000]
    img[2 * 256:2 * 256 + 9000] = body
    return bytes(img)


def small_disc(size):
    """three files of `size` bytes each (the .inf sidecars, about 40 bytes, are then the largest files extract-files creates)"""
    files = [images.E('F%d' % i, 2 + i, size, dir='$', locked=bool(i % 2)) for i in range(3)]
    files.reverse()
    img, model = disc.build_spec({'kind': 'acorn', 'tracks': 40, 'spt': 10, 'files': files, 'title': 'SMALL', 'tag': 'S'})
    return bytes(img)


def gap_disc():
    """free spans of 10, 3 and 1 sectors separated by one-sector files, and nothing free at the end: the LAST file
    extract-unused writes is the smallest, the first the largest"""
    # sectors: 2 file, 3..12 free (10), 13 file, 14..16 free (3), 17 file, 18 free (1), 19 file to the end
    files = [images.E('TAIL', 19, (400 - 19) * 256, dir='$'), images.E('C', 17, 256, dir='$'), images.E('B', 13, 200, dir='$'), images.E('A', 2, 1, dir='$')]
    img, model = disc.build_spec({'kind': 'acorn', 'tracks': 40, 'spt': 10, 'files': files, 'title': 'GAPS', 'tag': 'G'})
    return bytes(img)


def basic_prog():
    lines = [(10 * i, b'\xf1"LINE %d OF A FAIRLY LONG PROGRAM";' % i + b'\xe5' + R.encode_linenum(10)) for i in range(1, 260)]
    return R.frame('6502', lines)


def prog_exact(L):
    """a 6502 program whose --listo 0 listing is exactly L bytes: lines of 64 listed bytes, last line adjusted"""
    lines = []
    n = 1
    left = L
    while left > 0:
        take = 64 if left >= 64 + 7 or left == 64 else left
        # listed line = 5 (number) + body + 1 (newline); body = REM token (3 chars) + filler
        body_chars = take - 6
        if body_chars < 3:
            # cannot make such a short line: borrow from the previous line
            prev_num, prev_body = lines.pop()
            left += 6 + 3 + (len(prev_body) - 1)
            continue
        lines.append((n, b'\xf4' + b'x' * (body_chars - 3)))
        n += 1
        left -= take
    return R.frame('6502', lines)


DFS_CMDS = [['cat'], ['info', '#.*'], ['type', 'D.FILE00'], ['type', '--binary', 'D.FILE00'], ['list', 'D.FILE00'],
            ['dump', 'D.FILE00'], ['dump-sector', '0', '1', '2'], ['free'], ['space'], ['sector-map'], ['show-titles'],
            ['help'], ['help', 'info'], ['--help']]
BASIC_CMDS = [['prog.bbc'], ['--listo', '0', 'prog.bbc', 'prog.bbc'], ['--help'], ['--dialect', 'help', 'prog.bbc'],
              ['--dump-token-maps', '-'], ['-']]


def setup_dir():
    d = run.fresh_dir('c11')
    dfsrun.write(d, 'big.ssd', big_disc())
    dfsrun.write(d, 'prog.bbc', basic_prog())
    os.makedirs(os.path.join(d, 'out'))
    return d


def argv_of(tool, cmd):
    if tool == 'dfs':
        if cmd and cmd[0] == '--help':
            return [build.exe(BIN, 'dfs'), '--help']
        return [build.exe(BIN, 'dfs'), '--file', 'big.ssd'] + cmd
    return [build.exe(BIN, 'bbcbasic_to_text')] + cmd


def clean_out(d):
    o = os.path.join(d, 'out')
    for f in os.listdir(o):
        os.unlink(os.path.join(o, f))


def w_stdout_limit(case):
    """one command, stdout is a regular file, RLIMIT_FSIZE = N for each N in the case"""
    res = mkres()
    try:
        d = setup_dir()
        tool, cmd = case['tool'], case['cmd']
        argv = argv_of(tool, cmd)
        stdin = basic_prog() if cmd == ['-'] else None
        ref = run.run_limited(argv, cwd=d, stdin=stdin, stdout_path=os.path.join(d, 'ref.out'))
        full = open(os.path.join(d, 'ref.out'), 'rb').read()
        clean_out(d)
        if ref.exit != 0 or ref.sig:
            res['viol'].append(('HARNESS', 'reference run failed %s %r' % (ref.status(), ref.err[:200])))
            res['case'] = case
            return res
        for N in case['limits']:
            p = os.path.join(d, 'lim.out')
            r = run.run_limited(argv, cwd=d, stdin=stdin, stdout_path=p, fsize=N)
            got = open(p, 'rb').read()
            clean_out(d)
            res['n'] += 1
            sig = 'C11:%s:%s:fsize' % (tool, cmd[0] if cmd[0] not in ('prog.bbc',) else 'list-file')
            if N >= len(full):
                if r.exit != 0 or got != full:
                    bump(res, 'spurious-failure')
                    res['viol'].append((sig + ':spurious', 'limit %d >= output %d but exit %s' % (N, len(full), r.status())))
                else:
                    bump(res, 'ok-unaffected')
                continue
            if r.sig or r.timeout:
                bump(res, 'signal')
                res['viol'].append((sig + ':signal', 'N=%d: %s' % (N, r.status())))
            elif r.exit == 0:
                bump(res, 'exit0-truncated')
                res['viol'].append((sig + ':exit0-with-truncated-output', '%s %r with output device refusing writes after '
                                    '%d of %d bytes: exit 0, %d bytes written, stderr %r' % (tool, cmd, N, len(full), len(got), r.err[:100])))
            elif not r.err.strip():
                bump(res, 'silent')
                res['viol'].append((sig + ':no-diagnostic', '%s %r limit %d of %d: exit %d, empty stderr' % (
                    tool, cmd, N, len(full), r.exit)))
            else:
                bump(res, 'ok-reported')
            res['nt'].append((tool, tuple(cmd), N))
        if res['viol']:
            res['case'] = case
    except Exception:
        import traceback
        res['viol'].append(('HARNESS', traceback.format_exc()))
        res['case'] = case
    return res


def w_extract_limit(case):
    """extract-files / extract-unused with RLIMIT_FSIZE = N applied to every created file (stdout is a pipe)"""
    res = mkres()
    try:
        d = setup_dir()
        cmd = case['cmd']
        if case.get('small') is not None:
            dfsrun.write(d, 'big.ssd', small_disc(case['small']))
        if case.get('gaps'):
            dfsrun.write(d, 'big.ssd', gap_disc())
        argv = argv_of('dfs', cmd)
        ref = run.run_limited(argv, cwd=d)
        tree = dfsrun.read_tree(os.path.join(d, 'out'))
        clean_out(d)
        if ref.exit != 0:
            res['viol'].append(('HARNESS', 'reference extract failed'))
            res['case'] = case
            return res
        sizes = sorted(set(len(v) for v in tree.values()))
        for N in case['limits']:
            r = run.run_limited(argv, cwd=d, fsize=N)
            got = dfsrun.read_tree(os.path.join(d, 'out'))
            clean_out(d)
            res['n'] += 1
            sig = 'C11:dfs:%s:fsize-per-file' % cmd[0]
            affected = any(len(v) > N for v in tree.values())
            if not affected:
                if r.exit != 0 or got != tree:
                    res['viol'].append((sig + ':spurious', 'N=%d' % N))
                else:
                    bump(res, 'ok-unaffected')
                continue
            if r.sig or r.timeout:
                res['viol'].append((sig + ':signal', 'N=%d %s' % (N, r.status())))
            elif r.exit == 0:
                bump(res, 'exit0-incomplete')
                short = sorted(k for k in tree if got.get(k) != tree[k])[:3]
                cls = 'inf' if all(k.endswith('.inf') for k in short) else 'body'
                res['viol'].append((sig + ':exit0-with-incomplete-files:' + cls, 'dfs %r with every created file limited to %d '
                                    'bytes: exit 0 but %s incomplete' % (cmd, N, short)))
            elif not r.err.strip():
                res['viol'].append((sig + ':no-diagnostic', 'N=%d exit %d' % (N, r.exit)))
            else:
                bump(res, 'ok-reported')
            res['nt'].append(('extract', tuple(cmd), N, case.get('small'), case.get('gaps')))
        if res['viol']:
            res['case'] = case
    except Exception:
        import traceback
        res['viol'].append(('HARNESS', traceback.format_exc()))
        res['case'] = case
    return res


def w_devices(case):
    """/dev/full, closed pipe (SIGPIPE ignored and default), missing / non-directory destination"""
    res = mkres()
    try:
        d = setup_dir()
        tool, cmd = case['tool'], case['cmd']
        argv = argv_of(tool, cmd)
        stdin = basic_prog() if cmd == ['-'] else None
        ref = run.run_limited(argv, cwd=d, stdin=stdin)
        clean_out(d)
        nout = len(ref.out)
        name = cmd[0] if cmd[0] != 'prog.bbc' else 'list-file'
        # /dev/full
        f = os.open('/dev/full', os.O_WRONLY)
        try:
            r = run.run_limited(argv, cwd=d, stdin=stdin, stdout_fd=f)
        finally:
            os.close(f)
        clean_out(d)
        res['n'] += 1
        if nout:
            if r.exit == 0 and not r.sig:
                bump(res, 'devfull-exit0')
                res['viol'].append(('C11:%s:%s:devfull:exit0' % (tool, name), '%s %r > /dev/full: exit 0 (output %d bytes lost)' % (tool, cmd, nout)))
            elif not r.sig and not r.err.strip():
                res['viol'].append(('C11:%s:%s:devfull:no-diagnostic' % (tool, name), '%s %r > /dev/full: exit %d silently' % (tool, cmd, r.exit)))
            else:
                bump(res, 'devfull-ok')
        # closed pipe
        for sp in ('i', 'd'):
            rfd, wfd = os.pipe()
            os.close(rfd)
            try:
                r = run.run_limited(argv, cwd=d, stdin=stdin, stdout_fd=wfd, sigpipe=sp)
            finally:
                os.close(wfd)
            clean_out(d)
            res['n'] += 1
            if not nout:
                continue
            if sp == 'd' and r.sig == signal.SIGPIPE:
                bump(res, 'sigpipe-killed')
                continue
            if r.exit == 0 and not r.sig:
                res['viol'].append(('C11:%s:%s:closed-pipe-%s:exit0' % (tool, name, sp), '%s %r into a closed pipe: exit 0' % (tool, cmd)))
            elif not r.sig and not r.err.strip():
                res['viol'].append(('C11:%s:%s:closed-pipe-%s:no-diagnostic' % (tool, name, sp), 'exit %d silently' % r.exit))
            elif r.sig and r.sig != signal.SIGPIPE:
                res['viol'].append(('C11:%s:%s:closed-pipe:signal%d' % (tool, name, r.sig), ''))
            else:
                bump(res, 'pipe-ok')
        res['nt'].append((tool, tuple(cmd)))
        if res['viol']:
            res['case'] = case
    except Exception:
        import traceback
        res['viol'].append(('HARNESS', traceback.format_exc()))
        res['case'] = case
    return res


def w_dest(case):
    res = mkres()
    try:
        d = setup_dir()
        dfsrun.write(d, 'afile', b'x')
        os.makedirs(os.path.join(d, 'ro'))
        for cmd in (['extract-files'], ['extract-unused']):
            for dest in ('nosuchdir', 'afile', 'nosuchdir/', '/proc/nosuch', '/dev/null'):
                r = run.run_limited(argv_of('dfs', cmd + [dest]), cwd=d)
                res['n'] += 1
                if r.exit == 0 or r.sig:
                    res['viol'].append(('C11:dfs:%s:bad-destination:%s' % (cmd[0], r.status()), 'dest=%s' % dest))
                elif not r.err.strip():
                    res['viol'].append(('C11:dfs:%s:bad-destination:no-diagnostic' % cmd[0], 'dest=%s' % dest))
                else:
                    bump(res, 'ok-reported')
                res['nt'].append((cmd[0], dest))
        if res['viol']:
            res['case'] = case
    except Exception:
        import traceback
        res['viol'].append(('HARNESS', traceback.format_exc()))
        res['case'] = case
    return res


def worker(case):
    return {'stdout': w_stdout_limit, 'extract': w_extract_limit, 'dev': w_devices, 'dest': w_dest, 'exact': w_exact}[case['w']](case)


def limits_for(n, tier):
    if tier == 'thorough':
        return list(range(0, n + 2))
    L = set(range(0, 65)) | set(range(max(0, n - 64), n + 2))
    for b in (1024, 4096, 8192):
        L |= set(range(b - 8, b + 9))
    L |= set(range(0, n, 13))
    return sorted(x for x in L if 0 <= x <= n + 1)


def out_len(tool, cmd):
    d = setup_dir()
    stdin = basic_prog() if cmd == ['-'] else None
    r = run.run_limited(argv_of(tool, cmd), cwd=d, stdin=stdin)
    return len(r.out)


def fam_stdout(tier):
    """every command of both tools x every byte offset N at which a regular-file stdout starts refusing writes"""
    for tool, cmds in (('dfs', DFS_CMDS), ('basic', BASIC_CMDS)):
        for cmd in cmds:
            n = out_len(tool, cmd)
            lim = limits_for(n, tier)
            for i in range(0, len(lim), 150):
                yield {'w': 'stdout', 'tool': tool, 'cmd': cmd, 'limits': lim[i:i + 150]}


def w_exact(case):
    """bbcbasic_to_text listing of an exact length: stdout refuses writes from offset N"""
    res = mkres()
    try:
        d = setup_dir()
        L = case['L']
        dfsrun.write(d, 'exact.bbc', prog_exact(L))
        argv = [build.exe(BIN, 'bbcbasic_to_text'), '--listo', '0', 'exact.bbc']
        ref = run.run_limited(argv, cwd=d, stdout_path=os.path.join(d, 'ref.out'))
        full = open(os.path.join(d, 'ref.out'), 'rb').read()
        if ref.exit != 0 or len(full) != L:
            res['viol'].append(('HARNESS', 'listing length %d, wanted %d (%s)' % (len(full), L, ref.status())))
            res['case'] = case
            return res
        for N in case['limits']:
            p = os.path.join(d, 'lim.out')
            r = run.run_limited(argv, cwd=d, stdout_path=p, fsize=N)
            got = open(p, 'rb').read()
            res['n'] += 1
            sig = 'C11:basic:list-file:fsize:exact-length'
            if N >= L:
                if r.exit != 0 or got != full:
                    res['viol'].append((sig + ':spurious', 'L=%d N=%d' % (L, N)))
                else:
                    bump(res, 'ok-unaffected')
            elif r.sig or r.timeout:
                res['viol'].append((sig + ':signal', 'L=%d N=%d %s' % (L, N, r.status())))
            elif r.exit == 0:
                bump(res, 'exit0-truncated')
                res['viol'].append((sig + ':exit0-with-truncated-output', 'listing of exactly %d bytes, device refusing writes after %d: exit 0, %d bytes written' % (L, N, len(got))))
            elif not r.err.strip():
                res['viol'].append((sig + ':no-diagnostic', 'L=%d N=%d' % (L, N)))
            else:
                bump(res, 'ok-reported')
            res['nt'].append(('exact', L, N))
        # /dev/full and closed pipe
        for dev in ('full', 'pipe'):
            if dev == 'full':
                f = os.open('/dev/full', os.O_WRONLY)
                r = run.run_limited(argv, cwd=d, stdout_fd=f)
                os.close(f)
            else:
                rfd, wfd = os.pipe()
                os.close(rfd)
                r = run.run_limited(argv, cwd=d, stdout_fd=wfd, sigpipe='i')
                os.close(wfd)
            res['n'] += 1
            if r.exit == 0 and not r.sig:
                res['viol'].append(('C11:basic:list-file:%s:exact-length:exit0' % dev, 'listing of exactly %d bytes' % L))
            elif not r.sig and not r.err.strip():
                res['viol'].append(('C11:basic:list-file:%s:exact-length:no-diagnostic' % dev, 'L=%d' % L))
            else:
                bump(res, 'dev-ok')
        if res['viol']:
            res['case'] = case
    except Exception:
        import traceback
        res['viol'].append(('HARNESS', traceback.format_exc()))
        res['case'] = case
    return res


def fam_exact(tier):
    """listings whose length is k*4096 + {-1,0,1,2} (the stdio buffer fills exactly at the last newline): every refusal offset in the last 4200 bytes (quick: every 7th)"""
    for k in (1, 2, 3):
        for delta in (-1, 0, 1, 2):
            L = k * 4096 + delta
            lo = max(0, L - 4200)
            lim = list(range(lo, L + 2, 1 if tier == 'thorough' else 7)) + [0, 1, L - 1, L, L + 1]
            lim = sorted(set(x for x in lim if x >= 0))
            for i in range(0, len(lim), 120):
                yield {'w': 'exact', 'L': L, 'limits': lim[i:i + 120]}


def fam_extract(tier):
    """extract-files / extract-unused: every per-file size limit N from 0 to the largest extracted file"""
    for cmd, top in ((['extract-files', 'out'], 9002), (['extract-unused', 'out'], 256 * 400)):
        if tier == 'thorough':
            lim = list(range(0, 9300)) + list(range(9300, top + 512, 251))
        else:
            lim = sorted(set(list(range(0, 80)) + list(range(0, 9300, 61)) + list(range(4090, 4102)) + list(range(8186, 8200))
                             + list(range(8990, 9010)) + list(range(9300, top + 512, 4099))))
        for i in range(0, len(lim), 100):
            yield {'w': 'extract', 'cmd': cmd, 'limits': lim[i:i + 100]}


def fam_extract_small(tier):
    """discs holding only small files (0..60 bytes): the first refused write lands in a .inf sidecar, not in a body"""
    sizes = range(0, 61) if tier == 'thorough' else (0, 1, 15, 16, 17, 30, 36, 37, 40, 44, 45, 50)
    for size in sizes:
        for cmd in (['extract-files', 'out'], ['extract-unused', 'out']):
            yield {'w': 'extract', 'cmd': cmd, 'small': size, 'limits': list(range(0, 70))}


def fam_extract_gaps(tier):
    """a disc whose free spans shrink towards the end (10, 3, 1 sectors) and whose files grow: a limit that refuses an
    early output file but admits the last one must still give a failure status"""
    lim = sorted(set(list(range(0, 2700, 1 if tier == 'thorough' else 64)) + [255, 256, 257, 767, 768, 769, 2559, 2560, 2561]))
    for cmd in (['extract-unused', 'out'], ['extract-files', 'out']):
        for i in range(0, len(lim), 30):
            yield {'w': 'extract', 'cmd': cmd, 'gaps': True, 'limits': lim[i:i + 30]}


def fam_dev(tier):
    """/dev/full and closed pipes for every command; missing / non-directory destinations"""
    for tool, cmds in (('dfs', DFS_CMDS + [['extract-unused', 'out']]), ('basic', BASIC_CMDS)):
        for cmd in cmds:
            yield {'w': 'dev', 'tool': tool, 'cmd': cmd}
    yield {'w': 'dest'}


FAMILIES = [('D-devfull-closedpipe-baddest', fam_dev), ('X-exact-buffer-multiple-listings', fam_exact), ('O-stdout-refuses-at-N', fam_stdout), ('E-extracted-file-refuses-at-N', fam_extract),
            ('S-small-files-sidecar-refuses-at-N', fam_extract_small),
            ('G-outputs-of-decreasing-size', fam_extract_gaps)]


def main(tier, seed):
    ctx = core.Ctx(PID, tier, 'fault_enumeration', seed, quick_s=240, thorough_s=2400)
    ctx.rule = ('Fault = the output device accepts exactly N bytes and then refuses (RLIMIT_FSIZE with SIGXFSZ ignored), for '
                'stdout of every command of both tools and for every file created by extract-files/extract-unused; quick: '
                'N in 0..64, buffer boundaries +-8, every 97th, last 64; thorough: every N. Plus /dev/full and closed pipes. '
                'Oracle: fewer bytes accepted than the fault-free output => non-zero exit and a diagnostic; a limit beyond '
                'the output changes nothing. Non-trivial = distinct (tool, command, N) with N < output length.')
    ctx.assumptions = ['kernel RLIMIT_FSIZE semantics on a regular file', 'pipe-at-offset faults are represented by the '
                       'closed-pipe and /dev/full cases only']
    ctx.explore(FAMILIES, worker, tier, chunksize=1)
    ctx.samples = [{'family': 'O', 'tool': 'dfs', 'cmd': ['sector-map'], 'N': 4100, 'output_len': 5971},
                   {'family': 'E', 'cmd': ['extract-files', 'out'], 'per_file_limit': 8191}]
    return ctx.finish()


def replay(rec):
    res = worker(rec['case'])
    for sig, text in res['viol']:
        print('replayed violation:', sig, text[:300])
    if any(s == rec['signature'] for s, _ in res['viol']):
        print('VIOLATION property=%s replay=(replayed)' % PID)
        return 1
    print('no violation on replay')
    return 0
