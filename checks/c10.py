"""C10 — gzip compression of an image file is transparent; damaged .gz is rejected, never read raw.
Exploration (X vs X.gz for every container x geometry x command, compression levels, members, buffer-
boundary sweeps) + fault enumeration (every truncation and every single-bit flip of a small .gz)."""
import os, zlib, gzip, io, struct
from lib import core, run, dfsrun, disc, images, flux

VARIANTS = ['plain']
PID = 'C10'
BIN = 'plain'

CMDS = [['cat'], ['info', '#.*'], ['type', 'HELLO'], ['type', '--binary', 'HELLO'], ['list', '!BOOT'],
        ['dump', 'W.WORLD'], ['dump-sector', '0', '1', '1'], ['free'], ['space'], ['sector-map'], ['show-titles'],
        ['cat', '2'], ['info', ':2.#.*'], ['extract-files', 'out'], ['extract-unused', 'out'], ['type', 'NOSUCH']]


def mkres():
    return {'n': 0, 'out': {}, 'viol': [], 'nt': [], 'case': None}


def bump(res, k):
    res['out'][k] = res['out'].get(k, 0) + 1


def build_image(spec):
    """spec: {'ext', 'tracks', 'spt', 'kind', 'nsec' (truncate to n sectors, optional)} -> bytes"""
    ext, tracks, spt, kind = spec['ext'], spec['tracks'], spec['spt'], spec.get('kind', 'acorn')
    total = spec.get('total')
    if kind == 'opus':
        s0, _, _ = images.opus_surface(tracks)
    else:
        s0, _, _ = images.small_surface(kind, tracks, spt, total=total)
    if ext in ('ssd', 'sdd'):
        data = s0
        if spec.get('sides') == 2:
            s1, _, _ = images.small_surface('acorn', tracks, spt, tag='Z', title='SIDE2', total=total)
            data = s0 + s1
    elif ext in ('dsd', 'ddd'):
        s1, _, _ = images.small_surface('acorn', tracks, spt, tag='Z', title='SIDE2', total=total)
        data = disc.interleave(s0, s1, spt)
    elif ext == 'mmb':
        n = spec.get('slots', 2)
        st = {i: 0x0F for i in range(n)}
        data = disc.mmb_header(st) + b''.join(images.small_surface('acorn', 80, 10, tag='M%d' % i, title='SLOT%d' % i)[0].ljust(disc.MMB_DISC, b'\0')
                                              for i in range(n))
    elif ext == 'hfe':
        enc = 'FM' if spt == 10 else 'MFM'
        data = flux.hfe_from_surfaces([s0], tracks, spt, enc, spec.get('version', 1), pad_tracks=spec.get('pad', True),
                                      lut_exact=spec.get('lut_exact', False))
        if spec.get('cut_tail'):
            # the file ends where the last track's listed data ends (no padding to a 512-byte block)
            data = data[:len(data) - spec['cut_tail']]
    elif ext == 'mfm':
        data = flux.hxcmfm_from_surfaces([s0], tracks, spt)
    if spec.get('nsec'):
        data = data[:spec['nsec'] * 256]
    return data


def gz_members(data, cuts, level=6):
    parts = []
    prev = 0
    for c in list(cuts) + [len(data)]:
        parts.append(images.gz(data[prev:c], level))
        prev = c
    return b''.join(parts)


def gz_two_members_named(data, cut, fname_len, level=9):
    """two members; the first carries an FNAME field of the given length, so its end offset in the file moves"""
    first = images.gz(data[:cut], level, fname='n' * fname_len) if fname_len else images.gz(data[:cut], level)
    return first + images.gz(data[cut:], level)


def gz_with_name(data, fname_len, level=6):
    """gzip member with an FNAME field of the given length (shifts the compressed stream by fname_len+1 bytes)"""
    if fname_len == 0:
        return images.gz(data, level)
    return images.gz(data, level, fname='n' * fname_len)


def gz_with_flags(data, flags, mtime=0, xfl=0, osb=3, level=6):
    """gzip member (RFC 1952) with any combination of FTEXT(1) FHCRC(2) FEXTRA(4) FNAME(8) FCOMMENT(16) header fields"""
    import zlib, struct
    hdr = bytearray(b'\x1f\x8b\x08' + bytes([flags]) + struct.pack('<I', mtime) + bytes([xfl, osb]))
    if flags & 4:
        extra = b'AP\x04\x00beeb'
        hdr += struct.pack('<H', len(extra)) + extra
    if flags & 8:
        hdr += b'disc.ssd\x00'
    if flags & 16:
        hdr += b'a comment field\x00'
    if flags & 2:
        hdr += struct.pack('<H', zlib.crc32(bytes(hdr)) & 0xFFFF)
    c = zlib.compressobj(level, zlib.DEFLATED, -15)
    body = c.compress(data) + c.flush()
    return bytes(hdr) + body + struct.pack('<II', zlib.crc32(data) & 0xFFFFFFFF, len(data) & 0xFFFFFFFF)


def compare_pair(res, d, name, cmds, sig, note):
    for cmd in cmds:
        outs = []
        for f in (name, name + '.gz'):
            od = os.path.join(d, 'out')
            if os.path.exists(od):
                for x in os.listdir(od):
                    os.unlink(os.path.join(od, x))
            else:
                os.makedirs(od)
            r = dfsrun.dfs(BIN, ['--file', f] + cmd, d)
            tree = dfsrun.read_tree(od) if cmd[0].startswith('extract') else None
            out = r.out
            if cmd[0] == 'extract-unused':
                pass
            outs.append((r.status(), out, tree, r.err))
        res['n'] += 1
        a, b = outs
        if a[0] != b[0] or a[1] != b[1] or a[2] != b[2]:
            what = 'exit' if a[0] != b[0] else ('stdout' if a[1] != b[1] else 'files')
            bump(res, 'differs')
            res['viol'].append(('%s:%s:%s' % (sig, cmd[0], what), '%s: %s vs %s.gz, %r: %s/%dB vs %s/%dB; stderr(gz)=%r' % (
                note, name, name, cmd, a[0], len(a[1]), b[0], len(b[1]), b[3][:160])))
        elif b[0] != 'exit0' and not b[3].strip():
            res['viol'].append(('%s:%s:no-diagnostic' % (sig, cmd[0]), note))
        else:
            bump(res, 'same-' + a[0])


def w_pair(case):
    res = mkres()
    try:
        d = run.fresh_dir('c10')
        data = build_image(case['spec'])
        name = 'x.' + case['spec']['ext']
        if case.get('where'):
            # the same pair under a path that itself contains '.gz' / another image extension
            sub, pat = case['where']
            if sub:
                os.makedirs(os.path.join(d, sub), exist_ok=True)
            name = os.path.join(sub, pat % case['spec']['ext'])
        if case['spec'].get('blank_side2'):
            half = len(data) // 2
            data = data[:half] + b'\xE5' * (len(data) - half) if case['spec']['ext'] in ('ssd', 'sdd') else data
        dfsrun.write(d, name, data)
        how = case.get('gz', {'level': 6})
        if 'cuts' in how:
            z = gz_members(data, how['cuts'], how.get('level', 6))
        elif 'fname2' in how:
            z = gz_two_members_named(data, how['cut'], how['fname2'])
        elif 'flags' in how:
            z = gz_with_flags(data, how['flags'], how.get('mtime', 0), how.get('xfl', 0), how.get('os', 3))
        elif 'fname' in how:
            z = gz_with_name(data, how['fname'], how.get('level', 6))
        else:
            z = images.gz(data, how.get('level', 6))
        dfsrun.write(d, name + '.gz', z)
        compare_pair(res, d, name, case.get('cmds', CMDS), case['sig'], case.get('note', ''))
        res['nt'].append((case['sig'], repr(sorted(case['spec'].items())), repr(sorted(how.items())), repr(case.get('where'))))
        if res['viol']:
            res['case'] = case
    except Exception:
        import traceback
        res['viol'].append(('HARNESS', traceback.format_exc()))
        res['case'] = case
    return res


def ref_inflate(z):
    """Reference: ('ok', data) if z is exactly one valid gzip member (CRC/ISIZE verified, nothing after it);
    ('bad', None) if invalid/incomplete; ('other', None) if valid member followed by more bytes."""
    try:
        o = zlib.decompressobj(16 + zlib.MAX_WBITS)
        data = o.decompress(z)
        if not o.eof:
            return ('bad', None)
        if o.unused_data:
            return ('other', None)
        return ('ok', data)
    except zlib.error:
        return ('bad', None)


def tiny_image():
    img = bytearray(b'\0' * (5 * 256))
    s0, s1 = disc.catalogue(b'TINY', 3, 1, 400, [disc.Entry(b'F', b'$', False, 0, 0, 300, 2)])
    img[0:256] = s0
    img[256:512] = s1
    img[512:812] = bytes((i * 7) & 0xFF for i in range(300))
    return bytes(img)


def damage_subject(which):
    """-> (file name stem, image bytes, gz bytes, commands)"""
    if which == 'noise':
        # incompressible file body: the deflate stream is long (stored / literal-heavy blocks), level 1
        import hashlib
        body = b''.join(hashlib.sha256(b'%d' % i).digest() for i in range(2600 // 32 + 1))[:2600]
        img = bytearray(b'\0' * (14 * 256))
        s0, s1 = disc.catalogue(b'NOISE', 3, 1, 400, [disc.Entry(b'F', b'$', False, 0, 0, 2600, 2, body=body)])
        img[0:256], img[256:512] = s0, s1
        img[512:512 + 2600] = body
        img = bytes(img)
        return 'ssd', img, images.gz(img, 1), [['cat'], ['type', '--binary', 'F']]
    if which == 'members':
        img = tiny_image()
        return 'ssd', img, gz_members(img, [300, 900], 9), [['cat'], ['type', '--binary', 'F']]
    if which == 'hfe':
        v = images.valid_images(small=True)['hfe']
        return 'hfe', v, images.gz(v, 9), [['cat'], ['type', '--binary', 'HELLO']]
    img = tiny_image()
    return 'ssd', img, images.gz(img, 9), [['cat'], ['type', '--binary', 'F']]


def w_damage(case):
    """damaged .gz streams: each must be rejected with a diagnostic or behave exactly like the undamaged file"""
    res = mkres()
    try:
        d = run.fresh_dir('c10')
        ext, img, z0, cmds = damage_subject(case.get('subject', 'tiny'))
        good_name, bad_name = 'good.%s.gz' % ext, 'bad.%s.gz' % ext
        dfsrun.write(d, good_name, z0)
        good = [dfsrun.dfs(BIN, ['--file', good_name] + c, d) for c in cmds]
        for kind, arg in case['damages']:
            if kind == 'trunc':
                z = z0[:arg]
            elif kind == 'flip':
                b = bytearray(z0)
                b[arg // 8] ^= 1 << (arg % 8)
                z = bytes(b)
            elif kind == 'raw':
                z = img
            elif kind == 'gzgz':
                z = images.gz(z0)
            elif kind == 'zlib':
                z = zlib.compress(img)
            elif kind == 'deflate':
                c = zlib.compressobj(6, zlib.DEFLATED, -15)
                z = c.compress(img) + c.flush()
            elif kind == 'append':
                z = z0 + bytes([arg]) * 3
            elif kind == 'empty':
                z = b''
            dfsrun.write(d, bad_name, z)
            st, refdata = ref_inflate(z)
            for c, g in zip(cmds, good):
                r = dfsrun.dfs(BIN, ['--file', bad_name] + c, d)
                res['n'] += 1
                same = (r.status() == g.status() and r.out == g.out)
                rejected = (r.exit not in (0,) and not r.sig and not r.timeout and r.err.strip())
                sig = 'C10:damage:%s%s' % (kind, '' if case.get('subject', 'tiny') == 'tiny' else ':' + case['subject'])
                if r.sig or r.timeout:
                    res['viol'].append((sig + ':crash', '%s %s: %s' % (kind, arg, r.status())))
                elif st == 'bad' and not rejected:
                    bump(res, 'bad-accepted')
                    res['viol'].append((sig + ':invalid-stream-accepted', '%s %s: reference inflater rejects the stream but '
                                        'dfs %r gave %s, %d bytes of output' % (kind, arg, c, r.status(), len(r.out))))
                elif st == 'ok' and refdata == img and not same:
                    bump(res, 'benign-differs')
                    res['viol'].append((sig + ':valid-stream-differs', '%s %s: stream still valid with identical content but '
                                        'dfs %r: %s vs %s' % (kind, arg, c, r.status(), g.status())))
                elif not (same or rejected):
                    bump(res, 'neither')
                    res['viol'].append((sig + ':neither-rejected-nor-identical', '%s %s %r: %s out=%r' % (kind, arg, c, r.status(), r.out[:60])))
                else:
                    bump(res, 'rejected' if rejected else 'identical')
            res['nt'].append((case.get('subject', 'tiny'), kind, arg))
        if res['viol']:
            res['case'] = case
    except Exception:
        import traceback
        res['viol'].append(('HARNESS', traceback.format_exc()))
        res['case'] = case
    return res


def worker(case):
    return {'pair': w_pair, 'damage': w_damage}[case['w']](case)


def fam_geometry(tier):
    """every container x standard geometry x Acorn/Watford/Opus x every command: X vs X.gz"""
    specs = []
    for tr in (35, 40, 80):
        specs.append({'ext': 'ssd', 'tracks': tr, 'spt': 10})
        specs.append({'ext': 'dsd', 'tracks': tr, 'spt': 10})
        for spt in (16, 18):
            specs.append({'ext': 'sdd', 'tracks': tr, 'spt': spt})
            specs.append({'ext': 'ddd', 'tracks': tr, 'spt': spt})
        specs.append({'ext': 'sdd', 'tracks': tr, 'spt': 18, 'kind': 'opus'})
    specs.append({'ext': 'ssd', 'tracks': 80, 'spt': 10, 'kind': 'watford'})
    specs.append({'ext': 'sdd', 'tracks': 80, 'spt': 18, 'kind': 'watford'})
    specs.append({'ext': 'mmb', 'tracks': 80, 'spt': 10, 'slots': 2})
    specs.append({'ext': 'hfe', 'tracks': 3, 'spt': 10, 'total': 30})
    specs.append({'ext': 'hfe', 'tracks': 2, 'spt': 18, 'total': 36, 'version': 3})
    specs.append({'ext': 'mfm', 'tracks': 2, 'spt': 18, 'total': 36})
    specs.append({'ext': 'hfe', 'tracks': 3, 'spt': 10, 'total': 30, 'pad': False})
    specs.append({'ext': 'hfe', 'tracks': 3, 'spt': 10, 'total': 30, 'lut_exact': True})
    for cut in (1, 100, 255, 256, 300, 511):
        specs.append({'ext': 'hfe', 'tracks': 3, 'spt': 10, 'total': 30, 'lut_exact': True, 'cut_tail': cut})
        specs.append({'ext': 'hfe', 'tracks': 2, 'spt': 18, 'total': 36, 'lut_exact': True, 'cut_tail': cut})
    # catalogue totals smaller than the surface (the probe then has several candidate geometries)
    for ext, tr, spt in (('sdd', 40, 18), ('sdd', 80, 18), ('sdd', 40, 16), ('ddd', 40, 18), ('ssd', 80, 10), ('dsd', 80, 10)):
        for total in (100, 400, 640, 720, 800):
            if total <= tr * spt:
                specs.append({'ext': ext, 'tracks': tr, 'spt': spt, 'total': total})
    for sp in specs:
        yield {'w': 'pair', 'spec': sp, 'sig': 'C10:pair:%s:%s' % (sp['ext'], sp.get('kind', 'acorn')),
               'note': '%dx%d total=%s' % (sp['tracks'], sp['spt'], sp.get('total'))}
    # the largest image the tool supports: an MMB file with all 511 slots (8192 + 511*204800 bytes); 510 slots as the neighbour
    for slots in ((511, 510) if tier == 'thorough' else (511,)):
        yield {'w': 'pair', 'spec': {'ext': 'mmb', 'tracks': 80, 'spt': 10, 'slots': slots}, 'sig': 'C10:pair:mmb:full', 'gz': {'level': 1},
               'cmds': [['cat'], ['cat', str(2 * (slots - 1))], ['show-titles'], ['type', '--binary', ':%d.$.HELLO' % (2 * (slots - 1))]]}


WHERE = [('discs.gz.d', 'x.%s'), ('a.ssd', 'x.%s'), ('', 'x.gz.v2.%s'), ('', 'x.ddd.%s'), ('d.gz', 'y.gz.%s'), ('', '.gz.%s'), ('./sub.mmb.gz', 'x.%s')]


def fam_paths(tier):
    """the geometry-ambiguous images (catalogue total smaller than the surface, 16/18 sectors, one/two sides) stored under paths that contain '.gz' or another image extension in a directory or inner file-name component: X vs X.gz"""
    specs = []
    for ext, tr, spt in (('sdd', 40, 18), ('sdd', 80, 18), ('sdd', 40, 16), ('ddd', 40, 18), ('ssd', 80, 10), ('dsd', 80, 10), ('dsd', 40, 10), ('ssd', 40, 10)):
        for total in (100, 400, 600, 640, 720, 800):
            if total <= tr * spt:
                specs.append({'ext': ext, 'tracks': tr, 'spt': spt, 'total': total})
    specs.append({'ext': 'ssd', 'tracks': 40, 'spt': 10, 'sides': 2})
    specs.append({'ext': 'sdd', 'tracks': 40, 'spt': 18, 'sides': 2, 'total': 600})
    specs.append({'ext': 'ssd', 'tracks': 40, 'spt': 10, 'sides': 2, 'blank_side2': True})
    specs.append({'ext': 'hfe', 'tracks': 3, 'spt': 10, 'total': 30})
    specs.append({'ext': 'mfm', 'tracks': 2, 'spt': 18, 'total': 36})
    specs.append({'ext': 'mmb', 'tracks': 80, 'spt': 10, 'slots': 2})
    cmds = [['cat'], ['info', '*'], ['type', '--binary', 'HELLO'], ['dump-sector', '0', '1', '2'], ['dump-sector', '2', '0', '1'], ['free'], ['sector-map'], ['--show-config', 'show-titles']]
    for i, sp in enumerate(specs):
        for j, where in enumerate(WHERE):
            if tier == 'quick' and (i + j) % 2 and j > 1:
                continue
            yield {'w': 'pair', 'spec': sp, 'where': list(where), 'cmds': cmds, 'sig': 'C10:pair:path-with-inner-extension:%s' % sp['ext'],
                   'note': '%dx%d total=%s under %s/%s' % (sp['tracks'], sp['spt'], sp.get('total'), where[0], where[1] % sp['ext'])}


def fam_levels(tier):
    """compression levels 0..9; image sizes of 2..12 sectors (decompressed size mod 1024 = 0,256,512,768)"""
    for lvl in range(10):
        yield {'w': 'pair', 'spec': {'ext': 'ssd', 'tracks': 40, 'spt': 10}, 'gz': {'level': lvl}, 'sig': 'C10:level',
               'note': 'level %d' % lvl, 'cmds': CMDS[:8]}
    for n in range(2, 13):
        yield {'w': 'pair', 'spec': {'ext': 'ssd', 'tracks': 40, 'spt': 10, 'nsec': n}, 'gz': {'level': 6}, 'sig': 'C10:size',
               'note': '%d sectors' % n, 'cmds': CMDS[:11]}


def fam_members(tier):
    """2 and 3 gzip members, split at every 256-byte boundary of a 12-sector image"""
    n = 12
    cuts1 = [[256 * i] for i in range(1, n)]
    cuts2 = [[256 * i, 256 * j] for i in range(1, n) for j in range(i + 1, n)]
    if tier == 'quick':
        cuts2 = cuts2[::5]
    for cuts in cuts1 + cuts2:
        yield {'w': 'pair', 'spec': {'ext': 'ssd', 'tracks': 40, 'spt': 10, 'nsec': n}, 'gz': {'cuts': cuts},
               'sig': 'C10:members:%d' % (len(cuts) + 1), 'note': 'cuts %s' % cuts, 'cmds': [['cat'], ['type', '--binary', 'HELLO'], ['dump-sector', '0', '1', '1']]}


def fam_boundary(tier):
    """compressed size swept through every residue mod 512 (FNAME header field of length 0..1100), data unchanged"""
    rng = range(0, 1100) if tier == 'thorough' else list(range(0, 1100, 3)) + list(range(500, 530)) + list(range(1010, 1040))
    for ln in rng:
        yield {'w': 'pair', 'spec': {'ext': 'ssd', 'tracks': 40, 'spt': 10, 'nsec': 14}, 'gz': {'fname': ln, 'level': 9},
               'sig': 'C10:boundary', 'note': 'FNAME length %d' % ln, 'cmds': [['cat'], ['type', '--binary', 'HELLO']]}


def fam_header(tier):
    """every combination of the five gzip header flags (FTEXT FHCRC FEXTRA FNAME FCOMMENT: 32 headers), MTIME / XFL / OS byte values"""
    spec = {'ext': 'ssd', 'tracks': 40, 'spt': 10, 'nsec': 14}
    cmds = [['cat'], ['type', '--binary', 'HELLO'], ['free']]
    for flags in range(32):
        yield {'w': 'pair', 'spec': spec, 'gz': {'flags': flags}, 'sig': 'C10:header-flags', 'note': 'FLG=%#04x' % flags, 'cmds': cmds}
    for mtime in (1, 0x7FFFFFFF, 0xFFFFFFFF):
        yield {'w': 'pair', 'spec': spec, 'gz': {'flags': 0, 'mtime': mtime}, 'sig': 'C10:header-mtime', 'note': 'MTIME=%#x' % mtime, 'cmds': cmds}
    for xfl in (2, 4, 0xFF):
        yield {'w': 'pair', 'spec': spec, 'gz': {'flags': 8, 'xfl': xfl}, 'sig': 'C10:header-xfl', 'note': 'XFL=%#x' % xfl, 'cmds': cmds}
    for osb in (0, 7, 11, 255):
        yield {'w': 'pair', 'spec': spec, 'gz': {'flags': 16, 'os': osb}, 'sig': 'C10:header-os', 'note': 'OS=%d' % osb, 'cmds': cmds}


def fam_member_boundary(tier):
    """two members: the end of the first member swept over every offset residue mod 512 (and beyond 1x/2x the input buffer)"""
    rng = range(0, 1100) if tier == 'thorough' else range(0, 520)
    for ln in rng:
        yield {'w': 'pair', 'spec': {'ext': 'ssd', 'tracks': 40, 'spt': 10, 'nsec': 14}, 'gz': {'fname2': ln, 'cut': 5 * 256 + 77},
               'sig': 'C10:member-boundary', 'note': 'first member FNAME length %d' % ln,
               'cmds': [['cat'], ['type', '--binary', 'HELLO'], ['dump-sector', '0', '1', '3']]}


def fam_damage(tier):
    """every truncation length and every single-bit flip of a small .gz; raw/zlib/deflate/gzip-of-gzip named .gz"""
    z0 = images.gz(tiny_image(), 9)
    n = len(z0)
    dam = [('trunc', k) for k in range(0, n)] + [('flip', b) for b in range(0, 8 * n)]
    dam += [('raw', 0), ('gzgz', 0), ('zlib', 0), ('deflate', 0), ('empty', 0), ('append', 0), ('append', 0x1F)]
    for i in range(0, len(dam), 60):
        yield {'w': 'damage', 'damages': dam[i:i + 60]}
    if tier == 'thorough':
        # the same for a long literal-heavy stream, a three-member stream and a compressed flux image
        for subject in ('noise', 'members', 'hfe'):
            n = len(damage_subject(subject)[2])
            dam = [('trunc', k) for k in range(0, n)] + [('flip', b) for b in range(0, 8 * n)] + [('append', 0), ('append', 0x1F)]
            for i in range(0, len(dam), 120):
                yield {'w': 'damage', 'subject': subject, 'damages': dam[i:i + 120]}


FAMILIES = [('P-paths-with-inner-extensions', fam_paths), ('H-gzip-header-fields', fam_header), ('L-levels-sizes', fam_levels), ('G-container-geometry', fam_geometry), ('M-members', fam_members),
            ('B-buffer-boundaries', fam_boundary), ('E-member-end-vs-input-buffer', fam_member_boundary),
            ('D-damaged-streams', fam_damage)]


def main(tier, seed):
    ctx = core.Ctx(PID, tier, 'exploration', seed, quick_s=220, thorough_s=1800)
    ctx.rule = ('Transparency: image X and gzip(X) named X.gz are run through every command; stdout, exit status and '
                'extracted trees must be identical (all containers x geometries x catalogue totals, levels 0-9, 1-3 '
                'members cut at every 256-byte boundary, compressed size swept over every residue mod 512 via the FNAME '
                'field). Damage: every truncation and every single-bit flip of a ~150-byte .gz must be rejected with a '
                'diagnostic or behave identically; whenever the reference inflater (Python zlib, gzip wrapper, CRC/ISIZE '
                'checked) rejects the stream dfs must reject it. Non-trivial = distinct (container spec, gzip shape) '
                'pairs and distinct damages.')
    ctx.assumptions = ['Python zlib as reference inflater', 'a valid member followed by extra bytes is outside the damage '
                       'oracle except that it must not crash']
    ctx.explore(FAMILIES, worker, tier, chunksize=1)
    ctx.samples = [{'family': 'G', 'spec': {'ext': 'sdd', 'tracks': 40, 'spt': 18, 'total': 400}, 'commands': 'all'},
                   {'family': 'D', 'damage': ['flip', 83]}, {'family': 'M', 'cuts': [256, 1024]}]
    return ctx.finish()


def replay(rec):
    res = worker(rec['case'])
    for sig, text in res['viol']:
        print('replayed violation:', sig, text[:300])
    if any(s == rec['signature'] for s, _ in res['viol']):
        print('VIOLATION property=%s replay=(replayed)' % PID)
        return 1
    print('no violation on replay')
    return 0
