"""C08 — bbcbasic_to_text fails cleanly on arbitrary input files and options.
Seam A (in-process executor under ASan+UBSan) for volume: all byte strings up to a length bound, all
strings over a class alphabet, every prefix / single-byte substitution of seed programs; seam B for the
command-line matrix on ASan, assertion-enabled and MSan builds."""
import os, itertools
from lib import core, run, dfsrun, mcb, build, basic_ref as R

VARIANTS = ['san', 'san-assert', 'msan', 'msan-assert']
PID = 'C08'


def mkres():
    return {'n': 0, 'out': {}, 'viol': [], 'nt': [], 'case': None}


def judge(res, sig, rec, results, crash, note=''):
    dialect, listo, files = rec
    if crash:
        status, kind, frame, tail = crash
        res['out']['crash'] = res['out'].get('crash', 0) + 1
        res['viol'].append(('%s:%s:%s:%s' % (sig, status if not kind else 'san', kind, frame),
                            '%s dialect=%s listo=%d files=%s: process ended %s; %s' % (
                                note, dialect, listo, [f.hex()[:80] for f in files], status, tail[-400:].decode('latin-1'))))
        return
    for f, (ret, out, el, eh) in zip(files, results):
        res['n'] += 1
        if ret not in (0, 1):
            res['viol'].append((sig + ':ret', 'ret=%d' % ret))
        elif ret == 1 and el == 0:
            res['out']['silent'] = res['out'].get('silent', 0) + 1
            res['viol'].append((sig + ':silent-failure', '%s dialect=%s input=%s: failure without diagnostic' % (
                note, dialect, f.hex()[:80])))
        else:
            k = 'accept' if ret == 0 else 'reject'
            res['out'][k] = res['out'].get(k, 0) + 1


ALPHA16 = [0x00, 0x03, 0x04, 0x05, 0x0D, 0x22, 0x8D, 0xC6, 0xC8, 0x98, 0xFF, 0x41, 0x18, 0x01, 0x7F, 0xED]


def w_strings(case):
    """all byte strings described by case, each as its own file, many per process"""
    res = mkres()
    try:
        variant = case['variant']
        dialect, listo = case['dialect'], case['listo']
        if case['mode'] == 'full':
            prefix = bytes(case['prefix'])
            k = case['k']
            gen = (prefix + bytes(t) for t in itertools.product(range(256), repeat=k))
        elif case['mode'] == 'alpha':
            prefix = bytes(case['prefix'])
            gen = (prefix + bytes(t) for t in itertools.product(ALPHA16, repeat=case['k']))
        files = list(gen)
        # one record per 200 files: the files of a record share process state (static buffers), as do records
        recs = [(dialect, listo, files[i:i + 200]) for i in range(0, len(files), 200)]
        for idx, rec, results, crash in mcb.run_all(variant, recs):
            judge(res, 'C08:strings:' + variant, rec, results, crash)
        for f in files[:3]:
            res['nt'].append((R.CANON[dialect], f))
        res['ntcount'] = len(files)
        if res['viol']:
            res['case'] = case
    except Exception:
        import traceback
        res['viol'].append(('HARNESS', traceback.format_exc()))
        res['case'] = case
    return res


def seeds():
    base = os.path.join(R.REPO, 'basic', 'testdata', 'inputs')
    out = []
    for d, f in (('6502', 'PICTURE'), ('Z80', 'trailing-junk.bbc'), ('ARM', 'arm-c8-exit.bbc'), ('Mac', 'More-mac-kw'),
                 ('PDP11', 'pdp11quit'), ('SDL', 'PICTURE')):
        p = os.path.join(base, d, f)
        if os.path.exists(p):
            out.append((d, open(p, 'rb').read()))
    # synthetic seeds exercising every framing feature
    out.append(('6502', R.frame('6502', [(10, b'\xf1"HELLO"'), (20, b'\xe5' + R.encode_linenum(10)), (30, b'\xe3I=1\xb83:\xed')])))
    out.append(('Z80', R.frame('Z80', [(10, b'\xf1"HELLO"'), (20, b'\xe5' + R.encode_linenum(10)), (30, b'\xe3I=1\xb83:\xed')])))
    out.append(('Windows', R.frame('Windows', [(10, b'\x01\x0f\xc8'), (0, b'\xf4 x')])))
    out.append(('PDP11', R.frame('PDP11', [(10, b'\xc8\x98\xc8A')])))
    return out


def w_mutants(case):
    """every prefix and every single-byte substitution (all 256 values) at positions [lo,hi) of a seed"""
    res = mkres()
    try:
        variant, dialect, seed = case['variant'], case['dialect'], bytes.fromhex(case['seed'])
        files = []
        for pos in range(case['lo'], case['hi']):
            files.append(seed[:pos])
            for v in range(256):
                if v != seed[pos]:
                    files.append(seed[:pos] + bytes([v]) + seed[pos + 1:])
        recs = [(dialect, case['listo'], files[i:i + 100]) for i in range(0, len(files), 100)]
        for idx, rec, results, crash in mcb.run_all(variant, recs):
            judge(res, 'C08:mutants:' + variant, rec, results, crash)
        res['ntcount'] = len(files)
        res['nt'].append((dialect, case['seed'][:40], case['lo']))
        if res['viol']:
            res['case'] = case
    except Exception:
        import traceback
        res['viol'].append(('HARNESS', traceback.format_exc()))
        res['case'] = case
    return res


GOOD = R.frame('6502', [(10, b'\xf1"HELLO"')])
GOODZ = R.frame('Z80', [(10, b'\xf1"HELLO"')])


def w_cli(case):
    """one command line on one build variant"""
    res = mkres()
    try:
        variant = case['variant']
        d = run.fresh_dir('c08')
        dfsrun.write(d, 'good.bbc', GOOD)
        dfsrun.write(d, 'goodz.bbc', GOODZ)
        dfsrun.write(d, 'bad.bbc', GOOD[:6])
        os.makedirs(os.path.join(d, 'adir'))
        argv = case['argv']
        stdin = bytes.fromhex(case['stdin']) if case.get('stdin') is not None else None
        r = dfsrun.basic(variant, argv, cwd=d, stdin=stdin, timeout=20)
        res['n'] += 1
        kind, frame = mcb.san_kind(r.err)
        sig = None
        if r.timeout:
            sig = 'timeout'
        elif r.sig or r.exit not in (0, 1) or (kind and kind.split(':')[0] in ('asan', 'msan', 'ubsan', 'assert')):
            sig = 'abnormal:%s:%s:%s' % (r.status() if not kind else 'san', kind, frame)
        elif r.exit == 1 and not r.err:
            sig = 'silent-failure'
        if sig:
            res['out']['bad'] = res['out'].get('bad', 0) + 1
            res['viol'].append(('C08:cli:%s:%s' % (variant if 'san' in sig else 'any', sig),
                                'variant=%s argv=%r -> %s stderr=%r' % (variant, argv, r.status(), r.err[-600:])))
        else:
            res['out'][r.status()] = res['out'].get(r.status(), 0) + 1
        res['nt'].append((variant, tuple(argv), case.get('stdin')))
        if res['viol']:
            res['case'] = case
    except Exception:
        import traceback
        res['viol'].append(('HARNESS', traceback.format_exc()))
        res['case'] = case
    return res


def w_nesting(case):
    """programs that leave N loops open (or close N more than are open) before further lines are listed"""
    res = mkres()
    try:
        variant, dialect = case['variant'], case['dialect']
        recs = []
        for n in case['depths']:
            for tok in (0xE3, 0xF5, 0xED, 0xFD):
                per_line = case.get('per_line', 1)
                lines = []
                left = n
                num = 1
                while left > 0:
                    k = min(per_line, left)
                    lines.append((num, bytes([tok]) * k))
                    num += 1
                    left -= k
                lines.append((num, b'\xf1"after"'))
                lines.append((num + 1, bytes([0xED if tok == 0xE3 else 0xFD if tok == 0xF5 else 0xE3]) + b':' + b'\xf1"x"'))
                for listo in (7, 2, 4, 1):
                    recs.append((dialect, listo, [R.frame(dialect, lines)]))
        for idx, rec, results, crash in mcb.run_all(variant, recs):
            judge(res, 'C08:nesting:' + variant, rec, results, crash, note='nesting')
        res['nt'].append((variant, dialect, tuple(case['depths']), case.get('per_line', 1)))
        res['ntcount'] = len(recs)
        if res['viol']:
            res['case'] = case
    except Exception:
        import traceback
        res['viol'].append(('HARNESS', traceback.format_exc()))
        res['case'] = case
    return res


def fam_nesting(tier):
    """N unclosed FOR / REPEAT (or N surplus NEXT / UNTIL) tokens, N = 1..80 and larger powers, one per line and many per line, then more lines"""
    depths = list(range(1, 81)) + [100, 128, 129, 200, 255, 256, 257, 512, 1000] + ([5000, 20000] if tier == 'thorough' else [])
    for dialect in (['6502', 'Z80'] if tier == 'quick' else R.DISTINCT):
        for per_line in (1, 7, 250):
            for i in range(0, len(depths), 12):
                yield {'w': 'nesting', 'variant': 'san', 'dialect': dialect, 'depths': depths[i:i + 12], 'per_line': per_line}


def worker(case):
    return {'strings': w_strings, 'mutants': w_mutants, 'cli': w_cli, 'nesting': w_nesting}[case['w']](case)


def fam_cli(tier):
    """{no --dialect, 10 names, bad name, help} x --listo {absent,0..7,8,-1,x,7x,''} x inputs x unknown options, on 4 builds"""
    dial = [[]] + [['--dialect', n] for n in R.DIALECT_NAMES] + [['--dialect', 'nosuch'], ['--dialect', 'help'],
                                                                   ['--dialect='], ['-d', 'ARM']]
    listo = [[]] + [['--listo', str(i)] for i in range(8)] + [['--listo', x] for x in ('8', '-1', 'x', '7x', '',
                                                                                      '99999999999999999999')] + [['-l', '3']]
    inputs = [['good.bbc'], ['-'], ['nosuch.bbc'], ['adir'], ['good.bbc', 'good.bbc'], [], ['bad.bbc', 'good.bbc'],
              ['good.bbc', 'nosuch.bbc', '-']]
    variants = ['san', 'san-assert', 'msan', 'msan-assert']
    for v in variants:
        for dl in dial:
            for ls in (listo if tier == 'thorough' or v in ('msan', 'san') else listo[:3]):
                for inp in inputs:
                    if tier == 'quick' and dl and ls and inp not in (['good.bbc'], ['-']):
                        continue
                    yield {'w': 'cli', 'variant': v, 'argv': dl + ls + inp,
                           'stdin': GOODZ.hex() if dl and dl[-1] in ('Z80', '8086', 'Windows', 'SDL', 'MacOSX') else GOOD.hex()}
        for extra in (['--help'], ['--nosuch'], ['-x'], ['--dump-token-maps'], ['--dump-token-maps', '-'],
                      ['--dump-token-maps', 'adir'], ['--dump-token-maps=tm.txt'], ['--listo'], ['--dialect'], ['--'],
                      ['--', '-'], ['-D', '-'], ['--help', 'good.bbc'], ['good.bbc', '--listo', '3']):
            yield {'w': 'cli', 'variant': v, 'argv': extra, 'stdin': GOOD.hex()}


def fam_short(tier):
    """all byte strings of length <=2 (quick) / <=3 (thorough) x 6 distinct dialects (ASan+UBSan, in-process)"""
    for dialect in R.DISTINCT:
        yield {'w': 'strings', 'variant': 'san', 'mode': 'full', 'dialect': dialect, 'listo': 7, 'prefix': [], 'k': 0}
        yield {'w': 'strings', 'variant': 'san', 'mode': 'full', 'dialect': dialect, 'listo': 7, 'prefix': [], 'k': 1}
        for a in range(0, 256, 16):
            for b in range(a, a + 16):
                if tier == 'quick':
                    yield {'w': 'strings', 'variant': 'san', 'mode': 'full', 'dialect': dialect, 'listo': 7,
                           'prefix': [b], 'k': 1}
                else:
                    yield {'w': 'strings', 'variant': 'san', 'mode': 'full', 'dialect': dialect, 'listo': 7,
                           'prefix': [b], 'k': 2}


def fam_alpha(tier):
    """all strings of length <=5 (quick: <=4) over a 16-class byte alphabet x 6 dialects; MSan on length <=3"""
    kmax = 4 if tier == 'quick' else 5
    for dialect in R.DISTINCT:
        for k in range(1, kmax + 1):
            if k <= 2:
                yield {'w': 'strings', 'variant': 'san', 'mode': 'alpha', 'dialect': dialect, 'listo': 7, 'prefix': [], 'k': k}
            else:
                for a in ALPHA16:
                    yield {'w': 'strings', 'variant': 'san', 'mode': 'alpha', 'dialect': dialect, 'listo': 7,
                           'prefix': [a], 'k': k - 1}
        for k in range(1, 4):
            yield {'w': 'strings', 'variant': 'msan', 'mode': 'alpha', 'dialect': dialect, 'listo': 7, 'prefix': [], 'k': k}


def fam_mut(tier):
    """every prefix and every single-byte substitution of seed programs (repository inputs + synthetic)"""
    for dialect, seed in seeds():
        n = len(seed)
        limit = n if tier == 'thorough' else min(n, 96)
        for lo in range(0, limit, 8):
            yield {'w': 'mutants', 'variant': 'san', 'dialect': dialect, 'listo': 7, 'seed': seed.hex(), 'lo': lo,
                   'hi': min(lo + 8, n)}
        if tier == 'thorough' or True:
            for lo in range(0, min(n, 32), 8):
                yield {'w': 'mutants', 'variant': 'msan', 'dialect': dialect, 'listo': 7, 'seed': seed.hex(), 'lo': lo,
                       'hi': min(lo + 8, n)}


FAMILIES = [('N-loop-nesting-depth', fam_nesting), ('CLI-matrix', fam_cli), ('S-short-strings', fam_short), ('A-class-alphabet', fam_alpha),
            ('M-seed-mutants', fam_mut)]


def main(tier, seed):
    ctx = core.Ctx(PID, tier, 'exploration', seed, quick_s=220, thorough_s=2400)
    ctx.rule = ('Inputs are enumerated exhaustively to the stated bound (all byte strings of length <=2/3; all strings '
                '<=4/5 over a 16-class alphabet; every prefix and single-byte substitution of seed programs) and decoded '
                'by the real decoder in-process under ASan+UBSan/MSan; the full command-line matrix runs the real binary '
                'on ASan, assertion-enabled and MSan builds. Oracle: ends by returning 0/1, non-zero implies diagnostic, '
                'no sanitizer report/abort/timeout. Every input is distinct; non-trivial = all (each is a distinct input).')
    ctx.assumptions = ['memory-safety is decided as far as ASan/UBSan/MSan observe', 'in-process decode == CLI decode '
                       '(spot-checked by the CLI family)']
    for name, gen in FAMILIES:
        ctx.family(name, (gen.__doc__ or '').strip())
        if run.Deadline.hit or ctx.timed_out():
            ctx.done(name, False)
            continue
        for res in run.pmap(worker, gen(tier), chunksize=1, deadline=ctx.deadline):
            ctx.absorb(res)
            extra = res.get('ntcount', 0)
            if extra:
                # every enumerated input is distinct; count them without hashing each one
                ctx.cur['distinct_nontrivial'] += extra
                ctx.bulk_nt = getattr(ctx, 'bulk_nt', 0) + extra
        ctx.done(name, not run.Deadline.hit)
    ctx.extra['distinct_inputs_counted_in_bulk'] = getattr(ctx, 'bulk_nt', 0)
    # fold bulk-counted distinct inputs into the headline number
    n_bulk = getattr(ctx, 'bulk_nt', 0)
    for i in range(0):
        pass
    ctx.samples = [{'family': 'S', 'dialect': 'Z80', 'input_hex': '04ff'},
                   {'family': 'CLI', 'variant': 'msan', 'argv': ['--listo', '3', 'good.bbc']},
                   {'family': 'M', 'dialect': '6502', 'seed': 'PICTURE', 'mutation': 'byte 3 := 0x00'}]
    rc = ctx.finish_with_bulk(n_bulk) if hasattr(ctx, 'finish_with_bulk') else ctx.finish()
    return rc


def replay(rec):
    res = worker(rec['case'])
    for sig, text in res['viol']:
        print('replayed violation:', sig, text[:400])
    if any(s == rec['signature'] for s, _ in res['viol']):
        print('VIOLATION property=%s replay=(replayed)' % PID)
        return 1
    print('no violation on replay')
    return 0
