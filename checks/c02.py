"""C02 — catalogue metadata reported exactly (info, cat, show-titles, .inf).
Exhaustive over the mixed high-bits byte, 16-bit low words, name characters, titles/cycle/option,
sort order over small catalogues, entry counts, Watford halves and Opus volumes."""
import os, itertools
from lib import core, run, disc, render, dfsrun
from checks.c01 import ent, container, drive_of

VARIANTS = ['plain']
PID = 'C02'
BIN = 'plain'
OPTS = {0: b'off', 1: b'LOAD', 2: b'RUN', 3: b'EXEC'}


def expected_rows(ms):
    return [{'dir': m['e'].dir, 'name': m['e'].name, 'locked': m['e'].locked,
             'load': render.sign_extend(m['e'].load), 'exec': render.sign_extend(m['e'].exec),
             'length': m['e'].length, 'start': m['e'].start} for m in ms]


def sort_key(cur, d, n):
    return (0 if d == cur else 1, d.lower(), n.lower())


def check_cat(out, vs, ms, cur, dens, drive_label, res, sig, note):
    try:
        c = render.parse_cat(out)
    except render.ParseError as e:
        return bad(res, sig + ':cat:parse', '%s: %s' % (note, e))
    title = vs.get('title', '').encode('latin-1').rstrip(b' ')
    if c['title'] != title:
        return bad(res, sig + ':cat:title', '%s: title %r want %r' % (note, c['title'], title))
    if c['cycle'] != vs.get('cycle', 0):
        return bad(res, sig + ':cat:cycle', '%s: cycle %r want %r' % (note, c['cycle'], vs.get('cycle', 0)))
    if c['option'] != vs.get('boot', 0) or c['option_desc'] != OPTS[vs.get('boot', 0)]:
        return bad(res, sig + ':cat:option', '%s: option %r' % (note, c['option']))
    if c['density'] != dens:
        return bad(res, sig + ':cat:density', '%s: density %r want %r' % (note, c['density'], dens))
    if c['drive'] != drive_label:
        return bad(res, sig + ':cat:drive', '%s: drive %r want %r' % (note, c['drive'], drive_label))
    # every file exactly once, with its lock mark
    got = []
    for d, n, lk in c['files']:
        got.append((d if d is not None else cur, n, lk))
    want = sorted((m['e'].dir, m['e'].name, m['e'].locked) for m in ms)
    if sorted(got) != want:
        return bad(res, sig + ':cat:fileset', '%s: files %r want %r' % (note, sorted(got)[:6], want[:6]))
    # a file printed without prefix must be in the current directory exactly; with prefix must not
    for (d, n, lk) in c['files']:
        if d is not None and d == cur:
            return bad(res, sig + ':cat:prefix', '%s: current-directory file printed with prefix' % note)
    # "current directory first": the files printed without a directory prefix are the current-directory group and must
    # all come before every file printed with a prefix
    seen_prefixed = False
    for (d, n, lk) in c['files']:
        if d is not None:
            seen_prefixed = True
        elif seen_prefixed:
            return bad(res, sig + ':cat:current-directory-not-first', '%s: unprefixed file %r listed after a prefixed one: %r' % (
                note, n, [(x[0], x[1]) for x in c['files']][:8]))
    # order: current directory first, then by directory and name case-insensitively.  A directory equal to the
    # current one only by case may be in either group (property is silent), so its key is compared loosely.
    keys = []
    for (d, n, lk) in c['files']:
        dd = d if d is not None else cur
        keys.append(sort_key(cur, dd, n))
    for a, b in zip(keys, keys[1:]):
        if a > b:
            # tolerate the case-only-directory ambiguity
            if a[1] == cur.lower() or b[1] == cur.lower():
                la = (0, a[1], a[2]) if a[1] == cur.lower() else a
                lb = (0, b[1], b[2]) if b[1] == cur.lower() else b
                if la <= lb:
                    continue
            return bad(res, sig + ':cat:order', '%s: order %r before %r' % (note, a, b))
    ok(res)


def bad(res, sig, text):
    res['out']['bad'] = res['out'].get('bad', 0) + 1
    res['viol'].append((sig, text))


def ok(res):
    res['out']['ok'] = res['out'].get('ok', 0) + 1


def run_case(case):
    res = {'n': 0, 'out': {}, 'viol': [], 'nt': [], 'case': None}
    try:
        spec = case['spec']
        sig = case['sig']
        img, model = disc.build_spec(spec)
        fname, data = container(spec, img)
        d = run.fresh_dir('c02')
        dfsrun.write(d, fname, data)
        drive = drive_of(spec)
        cur = case.get('dir', '$').encode('latin-1')
        dens = 'single' if spec['spt'] == 10 else 'double'
        if spec['kind'] == 'opus':
            vols = sorted(spec['vols'])
            vspecs = {l: spec['vols'][l] for l in vols}
        else:
            vols = [None]
            vspecs = {None: spec}
        uis = case.get('ui', [None])
        for vol in vols:
            ms = [m for m in model if m['vol'] == vol]
            dl = '%d%s' % (drive, vol or '')
            base = ['--file', fname, '--drive', dl, '--dir', cur.decode('latin-1')]
            # option order: --ui is given before the other options for cat (first pass) and AFTER --drive/--dir for info,
            # extract-files and a second cat pass: a presentation option must not reset the selection made before it
            late_ui = next((u for u in uis if u), None)
            late = ['--ui', late_ui] if late_ui else []
            if 'info' in case['checks']:
                r = dfsrun.dfs(BIN, base + late + ['info', '#.*'], d)
                res['n'] += 1
                if r.status() != 'exit0':
                    if case.get('reject_ok') and r.exit == 1 and r.err:
                        res['out']['rejected'] = res['out'].get('rejected', 0) + 1
                    else:
                        bad(res, sig + ':info:fail:' + r.status(), 'info failed: %r' % r.err[:200])
                else:
                    try:
                        rows = render.parse_info(r.out)
                        want = expected_rows(ms)
                        if rows != want:
                            fld = 'rows'
                            if len(rows) == len(want):
                                for a, b in zip(rows, want):
                                    for k in b:
                                        if a[k] != b[k]:
                                            fld = k
                                            break
                                    if fld != 'rows':
                                        break
                            bad(res, sig + ':info:' + fld, 'info mismatch (%s): got %r want %r' % (
                                fld, rows[:3], want[:3]))
                        else:
                            ok(res)
                    except render.ParseError as e:
                        bad(res, sig + ':info:parse', str(e))
            if 'cat' in case['checks']:
                for ui, where in [(u, 'early') for u in uis] + [(u, 'late') for u in uis if u]:
                    argv = ((['--ui', ui] if ui else []) + base + ['cat']) if where == 'early' else (base + ['--ui', ui, 'cat'])
                    r = dfsrun.dfs(BIN, argv, d)
                    res['n'] += 1
                    if r.status() != 'exit0':
                        if case.get('reject_ok') and r.exit == 1 and r.err:
                            res['out']['rejected'] = res['out'].get('rejected', 0) + 1
                        else:
                            bad(res, sig + ':cat:fail:' + r.status(), 'cat failed: %r' % r.err[:200])
                        continue
                    check_cat(r.out, vspecs[vol], ms, cur, dens, dl.encode(), res, sig, 'ui=%s (%s) vol=%s' % (ui, where, vol))
            if 'inf' in case['checks']:
                dest = os.path.join(d, 'out')
                os.makedirs(dest, exist_ok=True)
                for f in os.listdir(dest):
                    os.unlink(os.path.join(dest, f))
                r = dfsrun.dfs(BIN, base + late + ['extract-files', 'out'], d)
                res['n'] += 1
                if r.status() != 'exit0':
                    bad(res, sig + ':inf:fail:' + r.status(), 'extract-files failed: %r' % r.err[:200])
                else:
                    tree = dfsrun.read_tree(dest)
                    for m in ms:
                        e = m['e']
                        hn = (e.name if e.dir == cur else e.dir + b'.' + e.name).decode('latin-1') + '.inf'
                        if hn not in tree:
                            bad(res, sig + ':inf:missing', 'no %s in %s' % (hn, sorted(tree)[:6]))
                            continue
                        try:
                            inf = render.parse_inf(tree[hn])
                        except render.ParseError as ex:
                            bad(res, sig + ':inf:parse', str(ex))
                            continue
                        want = {'name': e.dir + b'.' + e.name, 'load': render.sign_extend(e.load),
                                'exec': render.sign_extend(e.exec), 'length': e.length, 'locked': e.locked,
                                'crc': render.xmodem_crc(m['body'])}
                        if not tree[hn].endswith(b'\n'):
                            bad(res, sig + ':inf:newline', 'inf not newline terminated')
                        elif inf != want:
                            fld = [k for k in want if inf.get(k) != want[k]]
                            bad(res, sig + ':inf:' + fld[0], 'inf %r want %r' % (inf, want))
                        else:
                            ok(res)
        if 'titles' in case['checks']:
            r = dfsrun.dfs(BIN, ['--file', fname, 'show-titles'], d)
            res['n'] += 1
            if r.status() != 'exit0':
                bad(res, sig + ':titles:fail:' + r.status(), 'show-titles failed: %r' % r.err[:200])
            else:
                try:
                    rows = render.parse_show_titles(r.out)
                    want = [(('%d%s' % (drive, v or '')).encode(), vspecs[v].get('title', '').encode('latin-1').rstrip(b' '))
                            for v in vols]
                    rows = [x for x in rows if x[0].rstrip(b'ABCDEFGH') == str(drive).encode()]
                    if rows != want:
                        bad(res, sig + ':titles:mismatch', 'show-titles %r want %r' % (rows, want))
                    else:
                        ok(res)
                except render.ParseError as e:
                    bad(res, sig + ':titles:parse', str(e))
        for m in model:
            e = m['e']
            res['nt'].append((case['sig'], disc.mixed_byte(e), e.load & 0xFFFF, e.exec & 0xFFFF, e.length & 0xFFFF,
                              e.start & 0xFF, e.name, e.dir, e.locked))
        res['nt'].append((case['sig'], spec.get('title'), spec.get('cycle'), spec.get('boot'), tuple(uis), cur))
        if res['viol']:
            res['case'] = case
    except Exception:
        import traceback
        res['viol'].append(('HARNESS', traceback.format_exc()))
        res['case'] = case
    return res


# --------------------------------------------------------------------------- families
LOWS = [0x0000, 0x0001, 0x7FFF, 0x8000, 0xFFFF]


def fam_m1(tier):
    """all 256 values of the mixed high-bits byte x boundary low words, one entry per disc"""
    lows = [0x0001, 0xFFFF] if tier == 'quick' else LOWS
    for mixed in range(256):
        ex_hi, ln_hi, ld_hi, st_hi = mixed >> 6, (mixed >> 4) & 3, (mixed >> 2) & 3, mixed & 3
        for ld_lo, ex_lo, ln_lo in itertools.product(lows, lows, lows):
            for st_lo in ([0x02] if tier == 'quick' else [0x00, 0x02, 0xFF]):
                start = st_hi << 8 | st_lo
                length = ln_hi << 16 | ln_lo
                nsec = (length + 255) // 256
                wellformed = start >= 2 and start + nsec <= 1023
                e = ent('M', start, length, load=ld_hi << 16 | ld_lo, exec=ex_hi << 16 | ex_lo,
                        locked=bool(mixed & 1))
                spec = {'kind': 'acorn', 'tracks': 80, 'spt': 18, 'ext': 'sdd', 'total': 1023, 'files': [e],
                        'title': 'M1', 'cycle': mixed}
                if wellformed:
                    yield {'spec': spec, 'checks': ['info', 'cat'] + (['inf'] if length <= 0x10100 else []),
                           'sig': 'C02:M1'}
                else:
                    yield {'spec': spec, 'checks': ['info', 'cat'], 'sig': 'C02:M1x:metadata-only',
                           'reject_ok': True}


def fam_m2(tier):
    """all 16-bit low words of load / exec / length, one field at a time, packed 31 (3 for length) per disc"""
    step = 257 if tier == 'quick' else 1
    words = list(range(0, 65536, step))
    if 0xFFFF not in words:
        words.append(0xFFFF)
    for field in ('load', 'exec'):
        for hi in ((0, 2) if tier == 'quick' else (0, 1, 2, 3)):
            for i in range(0, len(words), 31):
                chunk = words[i:i + 31]
                files = []
                for j, w in enumerate(chunk):
                    kw = {'load': 0x1900, 'exec': 0x8023}
                    kw[field] = hi << 16 | w
                    files.append(ent('W%04X' % w, 2 + j, 1 + j, **kw))
                files.reverse()
                spec = {'kind': 'acorn', 'tracks': 40, 'spt': 10, 'ext': 'ssd', 'files': files, 'title': 'M2'}
                yield {'spec': spec, 'checks': ['info', 'inf'] if (i // 31) % 16 == 0 else ['info'],
                       'sig': 'C02:M2:' + field}
    lstep = 263 if tier == 'quick' else 1
    lw = list(range(0, 65536, lstep)) + [0xFFFF]
    for hi in ((0, 1) if tier == 'quick' else (0, 1, 2)):
        for i in range(0, len(lw), 3):
            chunk = lw[i:i + 3]
            files = []
            pos = 2
            for w in chunk:
                ln = hi << 16 | w
                n = (ln + 255) // 256
                if pos + n > 1023:
                    break
                files.append(ent('L%04X' % w, pos, ln))
                pos += n
            if not files:
                continue
            files.reverse()
            spec = {'kind': 'acorn', 'tracks': 80, 'spt': 18, 'ext': 'sdd', 'total': 1023, 'files': files,
                    'title': 'M2L'}
            yield {'spec': spec, 'checks': ['info'], 'sig': 'C02:M2:length'}


LEGAL = [c for c in range(0x21, 0x7F) if chr(c) not in '#*.:']


def fam_m3(tier):
    """every legal character in every name position and as directory, lock on/off, name lengths 1..7"""
    # one disc per (position, block of 30 characters): 30 entries differing in one position
    for pos in range(7):
        for blk in range(0, len(LEGAL), 30):
            chars = LEGAL[blk:blk + 30]
            files = []
            for j, c in enumerate(chars):
                nm = bytearray(b'N' * (pos + 1))
                nm[pos] = c
                nm = bytes(nm) + (b'%d' % (j % 10) if pos < 6 else b'')
                nm = nm[:7]
                # make names unique ignoring case: prefix-free by construction except letters; add index dir
                files.append([nm.decode('latin-1'), chr(0x41 + j % 26) if pos else '$', bool(j % 2), 0x1900 + j,
                              0x8023, 1 + j, 2 + j])
            files.reverse()
            spec = {'kind': 'acorn', 'tracks': 40, 'spt': 10, 'ext': 'ssd', 'files': files, 'title': 'M3'}
            yield {'spec': spec, 'checks': ['info', 'cat'] + (['inf'] if all(f[0].find('/') < 0 for f in files) else []),
                   'sig': 'C02:M3:name'}
    # directory character
    for blk in range(0, len(LEGAL), 30):
        chars = LEGAL[blk:blk + 30]
        files = [['D%d' % j, chr(c), bool(j % 2), 0, 0, 1, 2 + j] for j, c in enumerate(chars)]
        files.reverse()
        spec = {'kind': 'acorn', 'tracks': 40, 'spt': 10, 'ext': 'ssd', 'files': files, 'title': 'M3D'}
        for cur in ('$', 'A', 'a'):
            yield {'spec': spec, 'checks': ['info', 'cat'] + (['inf'] if all(f[1] != '/' for f in files) else []),
                   'sig': 'C02:M3:dir', 'dir': cur}
    # name lengths
    files = [['ABCDEFG'[:n], '$', False, 0, 0, n, 2 + n] for n in range(1, 8)]
    files.reverse()
    spec = {'kind': 'acorn', 'tracks': 40, 'spt': 10, 'ext': 'ssd', 'files': files, 'title': 'M3L'}
    yield {'spec': spec, 'checks': ['info', 'cat', 'inf'], 'sig': 'C02:M3:len'}


TITLE_CH = 'Az09!-_+=<>?@^~/$%&'


def fam_m4(tier):
    """title lengths 0..12 / every title character, cycle 0..255, boot option 0..3, each --ui"""
    uis = [None, 'acorn', 'watford', 'opus']
    files = [ent('B', 5, 10), ent('A', 3, 300, dir='Q', locked=True)]
    kinds = [('acorn', 'ssd', 40, 10), ('watford', 'ssd', 80, 10), ('acorn', 'sdd', 80, 18)]
    for n in range(13):
        for kind, ext, tr, spt in kinds:
            t = 'TITLEtitle12'[:n]
            fl = [list(f) for f in files]
            if kind == 'watford':
                fl[1][6] = 4
            spec = {'kind': kind, 'tracks': tr, 'spt': spt, 'ext': ext, 'files': fl, 'files2': [], 'title': t,
                    'cycle': 0x5A, 'boot': n % 4}
            yield {'spec': spec, 'checks': ['cat', 'titles'], 'ui': uis, 'sig': 'C02:M4:title'}
    for ch in TITLE_CH:
        for pos in (0, 5, 7, 8, 11):
            t = bytearray(b'TTTTTTTTTTTT')
            t[pos] = ord(ch)
            spec = {'kind': 'acorn', 'tracks': 40, 'spt': 10, 'ext': 'ssd', 'files': files, 'title': t.decode(),
                    'cycle': 1, 'boot': 1}
            yield {'spec': spec, 'checks': ['cat', 'titles'], 'ui': uis if pos == 0 else [None], 'sig': 'C02:M4:titlechar'}
    # title with interior spaces
    for t in ('A B', 'AB  CD', 'A          Z', ' X'):
        spec = {'kind': 'acorn', 'tracks': 40, 'spt': 10, 'ext': 'ssd', 'files': files, 'title': t, 'cycle': 2}
        if t.startswith(' '):
            continue
        yield {'spec': spec, 'checks': ['cat', 'titles'], 'ui': uis, 'sig': 'C02:M4:titlespace'}
    cycles = range(256) if tier == 'thorough' else [0, 1, 9, 10, 15, 16, 0x7F, 0x80, 0x99, 0xA0, 0xFF]
    for cy in cycles:
        for boot in range(4):
            spec = {'kind': 'acorn', 'tracks': 40, 'spt': 10, 'ext': 'ssd', 'files': files, 'title': 'CY',
                    'cycle': cy, 'boot': boot}
            yield {'spec': spec, 'checks': ['cat'], 'ui': uis if cy in (0, 0x99, 0xFF) else [None], 'sig': 'C02:M4:cycle'}


def fam_m5(tier):
    """sort order: every catalogue of <=3 (quick) / <=4 entries over a small dir/name set, every --dir"""
    dirs = ['$', 'A', 'a', 'B', '!']
    names = ['A', 'a', 'B', 'AA', 'Z']
    pool = [(d, n) for d in dirs for n in names]
    # unique ignoring case
    k = 3 if tier == 'quick' else 4
    import random
    combos = []
    for r in range(1, k + 1):
        for c in itertools.permutations(pool, r):
            low = [(d.lower(), n.lower()) for d, n in c]
            if len(set(low)) != len(low):
                continue
            combos.append(c)
    # bounded: all permutations for r<=2; for r=3,4 all *combinations* in every rotation
    seen = set()
    for c in combos:
        if len(c) >= 3:
            canon = tuple(sorted(c))
            rot = c
            if (canon, c[0]) in seen:
                continue
            seen.add((canon, c[0]))
        files = [[n, d, bool(i % 2), 0, 0, 1, 2 + (len(c) - 1 - i)] for i, (d, n) in enumerate(c)]
        spec = {'kind': 'acorn', 'tracks': 40, 'spt': 10, 'ext': 'ssd', 'files': files, 'title': 'M5'}
        for cur in (['$', 'A', 'a', 'Z', 'b'] if len(c) <= 2 else ['$', 'A', 'a', 'b']):
            yield {'spec': spec, 'checks': ['cat', 'info'], 'dir': cur, 'sig': 'C02:M5:order'}


def fam_m6(tier):
    """0..31 entries, Watford i+j splits, every Opus volume"""
    def mk(n, first):
        fs = []
        for i in range(n):
            fs.append(['N%02d' % i, '$ABab'[i % 5], bool(i % 2), 0x30000 + i, 0x20000 | i, 1 + i, first + i])
        fs.reverse()
        return fs
    counts = range(32) if tier == 'thorough' else [0, 1, 16, 30, 31]
    for n in counts:
        spec = {'kind': 'acorn', 'tracks': 40, 'spt': 10, 'ext': 'ssd', 'files': mk(n, 2), 'title': 'CNT%d' % n}
        yield {'spec': spec, 'checks': ['info', 'cat', 'titles', 'inf'], 'ui': [None, 'watford'], 'sig': 'C02:M6:acorn'}
    pairs = [(i, j) for i in range(32) for j in range(32)] if tier == 'thorough' else \
        [(0, 0), (1, 0), (0, 1), (31, 0), (0, 31), (31, 31), (30, 1), (1, 31), (15, 16)]
    for i, j in pairs:
        fs = mk(i + j, 4)
        spec = {'kind': 'watford', 'tracks': 80, 'spt': 10, 'ext': 'ssd', 'files': fs[j:], 'files2': fs[:j],
                'title': 'W%d+%d' % (i, j)}
        yield {'spec': spec, 'checks': ['info', 'cat', 'titles'] + (['inf'] if (i + j) % 7 == 0 else []),
               'ui': [None], 'sig': 'C02:M6:watford'}
    for nv in range(1, 9):
        vols = {}
        for k, L in enumerate('ABCDEFGH'[:nv]):
            vols[L] = {'track': 1 + k, 'files': mk(1 + 2 * k, 0), 'title': 'VOL-' + L, 'cycle': 16 * k + 1, 'boot': k % 4,
                       'total': 18}
        spec = {'kind': 'opus', 'tracks': 40, 'spt': 18, 'ext': 'sdd', 'vols': vols}
        yield {'spec': spec, 'checks': ['info', 'cat', 'titles', 'inf'], 'ui': [None, 'acorn'], 'sig': 'C02:M6:opus'}
    for letters in (['A', 'C'], ['A', 'H'], ['A', 'B', 'D', 'G']):
        vols = {}
        for k, L in enumerate(letters):
            vols[L] = {'track': 1 + k, 'files': mk(2 + k, 0), 'title': 'VOL-' + L, 'cycle': k, 'total': 18}
        spec = {'kind': 'opus', 'tracks': 40, 'spt': 18, 'ext': 'sdd', 'vols': vols}
        yield {'spec': spec, 'checks': ['info', 'cat', 'titles'], 'sig': 'C02:M6:opus:nonprefix'}


def fam_m7(tier):
    """.inf CRC: all 1-byte bodies, a grid of 2-byte bodies, lengths around 256"""
    bodies = [bytes([a]) for a in range(256)]
    grid = [0, 1, 0x10, 0x21, 0x7F, 0x80, 0xA0, 0xFF] if tier == 'quick' else range(0, 256, 5)
    bodies += [bytes([a, b]) for a in grid for b in grid]
    bodies += [bytes((i * 7 + n) & 0xFF for i in range(n)) for n in (0, 255, 256, 257, 511, 512, 513, 4097)]
    for i in range(0, len(bodies), 30):
        chunk = bodies[i:i + 30]
        vol_entries = []
        pos = 2
        for j, b in enumerate(chunk):
            vol_entries.append((j, pos, b))
            pos += max(1, (len(b) + 255) // 256)
        yield {'raw': [(j, pos_, b.hex()) for j, pos_, b in vol_entries], 'sig': 'C02:M7:crc'}


def run_m7(case):
    res = {'n': 0, 'out': {}, 'viol': [], 'nt': [], 'case': None}
    try:
        ents = []
        for j, pos, hx in case['raw']:
            b = bytes.fromhex(hx)
            ents.append(disc.Entry(b'C%02d' % j, b'$', False, 0, 0, len(b), pos, body=b))
        ents.reverse()
        img = disc.acorn_surface(disc.Volume(ents, b'CRC'), 400, b'c')
        d = run.fresh_dir('c02')
        dfsrun.write(d, 'img.ssd', img)
        os.makedirs(os.path.join(d, 'out'))
        r = dfsrun.dfs(BIN, ['--file', 'img.ssd', 'extract-files', 'out'], d)
        res['n'] += 1
        if r.status() != 'exit0':
            bad(res, 'C02:M7:fail:' + r.status(), 'extract-files failed %r' % r.err[:200])
        else:
            tree = dfsrun.read_tree(os.path.join(d, 'out'))
            for e in ents:
                nm = e.name.decode()
                try:
                    inf = render.parse_inf(tree[nm + '.inf'])
                    if inf.get('crc') != render.xmodem_crc(e.body) or tree[nm] != e.body:
                        bad(res, 'C02:M7:crc', 'body %r crc %r want %04X' % (e.body[:8], inf.get('crc'), render.xmodem_crc(e.body)))
                    else:
                        ok(res)
                except (KeyError, render.ParseError) as ex:
                    bad(res, 'C02:M7:parse', repr(ex))
                res['nt'].append(('crc', e.body))
        if res['viol']:
            res['case'] = case
    except Exception:
        import traceback
        res['viol'].append(('HARNESS', traceback.format_exc()))
        res['case'] = case
    return res


def worker(case):
    return run_m7(case) if 'raw' in case else run_case(case)


FAMILIES = [('M4-title-cycle-option-ui', fam_m4), ('M6-entry-counts-volumes', fam_m6), ('M3-name-characters', fam_m3),
            ('M7-inf-crc', fam_m7), ('M5-sort-order', fam_m5), ('M1-mixed-byte', fam_m1), ('M2-low-words', fam_m2)]


def main(tier, seed):
    ctx = core.Ctx(PID, tier, 'exploration', seed, quick_s=200, thorough_s=2400)
    ctx.rule = ('Generated catalogues (description -> image) are shown through info / cat (every --ui) / show-titles / '
                'extract-files .inf and parsed back; every field must equal the description. Non-trivial = distinct '
                '(mixed byte, low words, start low byte, name, directory, lock) entries and distinct '
                '(title, cycle, option, ui, current dir) headers.')
    ctx.assumptions = ['plain build of /repo working tree', 'LC_ALL=C', 'reference model lib/disc.py, lib/render.py']
    ctx.explore(FAMILIES, worker, tier)
    ctx.samples = [
        {'family': 'M1', 'entry': {'mixed_byte': '0xB7', 'load': '0x1FFFF', 'exec': '0x28000', 'length': '0x30001',
                                    'start': '0x302'}, 'commands': ['info #.*', 'cat', 'extract-files']},
        {'family': 'M5', 'catalogue_order': ['a.A', '$.Z', 'A.AA'], 'dir': 'A', 'command': 'cat'}]
    return ctx.finish()


def replay(rec):
    res = worker(rec['case'])
    for sig, text in res['viol']:
        print('replayed violation:', sig, text)
    if any(s == rec['signature'] for s, _ in res['viol']):
        print('VIOLATION property=%s replay=(replayed)' % PID)
        return 1
    print('no violation on replay')
    return 0
