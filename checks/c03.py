"""C03 — bbcbasic_to_text lists every well-formed program as doc/bbcbasic.5 defines.
Bounded-exhaustive: all single bytes, all ordered byte pairs, all triples over a class alphabet, all 65536
line-number references (and all 2^24 operand triples in the thorough tier), line numbers x line lengths,
all loop-indent sequences of <=5 lines, x 10 dialect names x LISTO 0..7 x file/stdin; oracle = lib/basic_ref."""
import os, itertools, glob
from lib import core, run, dfsrun, basic_ref as R

VARIANTS = ['plain']
PID = 'C03'
BIN = 'plain'


def compare(dialect, listo, lines, how, res, sig, note=None, expect=None):
    """Frame `lines`, run the real binary (file or stdin), compare with the reference listing."""
    if expect is None:
        st, text = R.listing(dialect, lines, listo)
        if st != R.WELL:
            res['out']['skipped-' + st] = res['out'].get('skipped-' + st, 0) + 1
            return
    else:
        text = expect
    prog = R.frame(dialect, lines)
    d = run.scratch()
    args = ['--dialect', dialect, '--listo', str(listo)]
    if how == 'file':
        p = dfsrun.write(d, 'prog.bbc', prog)
        r = dfsrun.basic(BIN, args + [p], cwd=d)
    else:
        r = dfsrun.basic(BIN, args + ['-'], cwd=d, stdin=prog)
    res['n'] += 1
    bad = None
    if r.status() != 'exit0':
        bad = 'fail:' + r.status()
    elif r.err:
        bad = 'stderr'
    elif r.out != text:
        bad = 'text'
    if bad:
        # locate the first differing line for the message
        got = r.out.split(b'\n')
        want = text.split(b'\n')
        k = 0
        while k < min(len(got), len(want)) and got[k] == want[k]:
            k += 1
        detail = 'line %d: got %r want %r' % (k, got[k][:60] if k < len(got) else None,
                                              want[k][:60] if k < len(want) else None)
        body = lines[k][1] if k < len(lines) else b''
        res['out']['bad'] = res['out'].get('bad', 0) + 1
        res['viol'].append(('%s:%s' % (sig, bad), '%s dialect=%s listo=%d %s: %s body=%s stderr=%r' % (
            note or '', dialect, listo, how, detail, body.hex(), r.err[:160])))
    else:
        res['out']['ok'] = res['out'].get('ok', 0) + 1
    return r


def mkres():
    return {'n': 0, 'out': {}, 'viol': [], 'nt': [], 'case': None}


def number_lines(bodies, start=1):
    return [(start + i, b) for i, b in enumerate(bodies)]


def in_domain(t, body):
    st, _, _ = R.decode_line_body(t, body)
    return st == R.WELL


# ---------------------------------------------------------------------------- workers
def w_bytes(case):
    """L1/L2: all single bytes / all ordered pairs starting with `first`, outside and inside quotes."""
    res = mkres()
    try:
        dialect, listo, how, firsts, mode = case['dialect'], case['listo'], case['how'], case['firsts'], case['mode']
        t = R.Tables(dialect)
        bodies = []
        for a in firsts:
            if mode == 'single':
                cands = [bytes([a]), b'"' + bytes([a]) + b'"', b'"' + bytes([a])]
            else:
                cands = []
                for b in range(1, 256):
                    cands.append(bytes([a, b]))
                    cands.append(b'A"' + bytes([a, b]) + b'"')
            for c in cands:
                if in_domain(t, c):
                    bodies.append(c)
        # keep program lines <= 251 bytes; chunk into programs of <= 60000 lines (line numbers 1..)
        for i in range(0, len(bodies), 60000):
            chunk = bodies[i:i + 60000]
            compare(dialect, listo, number_lines(chunk), how, res, 'C03:%s' % mode, note='firsts=%s' % firsts[:3])
        for b in bodies:
            res['nt'].append((R.CANON[dialect], b))
        res['n'] += len(bodies) - 1 if bodies else 0
        if res['viol']:
            res['case'] = case
    except Exception:
        import traceback
        res['viol'].append(('HARNESS', traceback.format_exc()))
        res['case'] = case
    return res


CLASSES = [b'"', b'\x8d', b'\xc6', b'\xc7', b'\xc8', b'\x8e', b'\x98', b'\x90', b'\xe3', b'\xed', b'\xf5', b'\xfd',
           b':', b'A', b'7', b' ', b'\x7f', b'\x05', b'\xff', b'\xcc']


def w_triples(case):
    res = mkres()
    try:
        dialect, listo, how = case['dialect'], case['listo'], case['how']
        t = R.Tables(dialect)
        bodies = []
        for tr in itertools.product(CLASSES, repeat=3):
            c = b''.join(tr)
            if in_domain(t, c):
                bodies.append(c)
            c2 = b'\x8d\x54\x4a\x40' + c          # after a complete line-number reference
            if in_domain(t, c2):
                bodies.append(c2)
        # every line in its own program would hide indentation interplay; here lines are independent, so
        # loop tokens are listed with LISTO bits 1/2 masked off unless the family asks otherwise
        compare(dialect, listo & 1, number_lines(bodies), how, res, 'C03:triple')
        for b in bodies:
            res['nt'].append((R.CANON[dialect], b))
        res['n'] += len(bodies)
        if res['viol']:
            res['case'] = case
    except Exception:
        import traceback
        res['viol'].append(('HARNESS', traceback.format_exc()))
        res['case'] = case
    return res


def w_linenum(case):
    """L4: line-number references. mode 'canon': all 65536 targets in canonical encoding;
    mode 'raw': all (b2,b3) for the given b1 values (the formula is defined for any operand bytes)."""
    res = mkres()
    try:
        dialect, listo, how = case['dialect'], case['listo'], case['how']
        bodies = []
        if case['mode'] == 'canon':
            for n in range(case['lo'], case['hi']):
                bodies.append(b'\xe5' + R.encode_linenum(n))
                res['nt'].append(('ref', n))
        else:
            for b1 in case['b1']:
                for b2 in range(1, 256):
                    row = bytearray()
                    for b3 in range(1, 256, 1):
                        row += bytes([0x8D, b1, b2, b3, 0x2C])
                        if len(row) > 240:
                            bodies.append(bytes(row))
                            row = bytearray()
                    if row:
                        bodies.append(bytes(row))
                res['nt'].append(('raw', b1))
        for i in range(0, len(bodies), 60000):
            compare(dialect, listo, number_lines(bodies[i:i + 60000]), how, res, 'C03:linenum:' + case['mode'])
        res['n'] += len(bodies)
        if res['viol']:
            res['case'] = case
    except Exception:
        import traceback
        res['viol'].append(('HARNESS', traceback.format_exc()))
        res['case'] = case
    return res


def w_numbers(case):
    """L5: line numbers x line lengths; L7: number of lines."""
    res = mkres()
    try:
        dialect, how = case['dialect'], case['how']
        big = R.CANON[dialect] in R.BIG_ENDIAN
        nums = [0, 1, 9, 10, 99, 100, 999, 1000, 9999, 10000, 32767, 32768, 65279]
        if not big:
            nums += [65280, 65535]
        lens = [0, 1, 2, 3, 100, 250, 251]
        for listo in case['listos']:
            lines = []
            for n in nums:
                for ln in lens:
                    body = (b'\xf4' + b'x' * 300)[:ln]
                    lines.append((n, body))
            compare(dialect, listo, lines, how, res, 'C03:numbers')
            for n, b in lines:
                res['nt'].append((R.CANON[dialect], n, len(b), listo))
            for count in (0, 1, 2, 300):
                compare(dialect, listo, [(10 * i, b'\xf1"L"') for i in range(1, count + 1)], how, res,
                        'C03:linecount:%d' % count)
        if res['viol']:
            res['case'] = case
    except Exception:
        import traceback
        res['viol'].append(('HARNESS', traceback.format_exc()))
        res['case'] = case
    return res


SHAPES = {'FORNEXT': b'\xe3I=1\xb89:\xed', 'REPUNTIL': b'\xf5:\xfdX', 'NEXTFOR': b'\xedI:\xe3J=1\xb82',
          'FOR': b'\xe3I=1\xb89', 'FOR2': b'\xe3I=1\xb82:\xe3J=1\xb82', 'NEXT': b'\xed', 'NEXT2': b'\xed:\xed',
          'REPEAT': b'\xf5', 'UNTIL': b'\xfdX', 'FORREP': b'\xe3I=1\xb82:\xf5', 'NEXTUNTIL': b'\xed:\xfd0',
          'PLAIN': b'\xf1"hi"', 'STR': b'\xf1"\xe3\xed\xf5\xfd"', 'REM': b'\xf4 plain'}


def compare_lines(dialect, listo, lines, how, res, sig, note):
    st, variants = R.listing_lines(dialect, lines, listo)
    if st != R.WELL:
        res['out']['skipped-' + st] = res['out'].get('skipped-' + st, 0) + 1
        return
    prog = R.frame(dialect, lines)
    d = run.scratch()
    args = ['--dialect', dialect, '--listo', str(listo)]
    if how == 'file':
        p = dfsrun.write(d, 'prog.bbc', prog)
        r = dfsrun.basic(BIN, args + [p], cwd=d)
    else:
        r = dfsrun.basic(BIN, args + ['-'], cwd=d, stdin=prog)
    res['n'] += 1
    got = r.out.split(b'\n')
    bad = None
    if r.status() != 'exit0' or r.err:
        bad = 'fail:' + r.status()
    elif len(got) != len(variants) + 1 or got[-1] != b'':
        bad = 'line-count'
    else:
        for k, (g, v) in enumerate(zip(got, variants)):
            if g + b'\n' not in v:
                bad = 'text'
                break
    if bad:
        res['out']['bad'] = res['out'].get('bad', 0) + 1
        res['viol'].append(('%s:%s' % (sig, bad), '%s dialect=%s listo=%d %s: got %r, acceptable %r' % (
            note, dialect, listo, how, r.out[:120], [sorted(v)[0] for v in variants][:6])))
    else:
        res['out']['ok'] = res['out'].get('ok', 0) + 1


def w_indent(case):
    res = mkres()
    try:
        dialect, how = case['dialect'], case['how']
        for seq in case['seqs']:
            lines = [(10 * (i + 1), SHAPES[s]) for i, s in enumerate(seq)]
            oneline = any(s in ('FORNEXT', 'REPUNTIL', 'NEXTFOR') for s in seq)
            for listo in case['listos']:
                sig = 'C03:indent' + (':string-with-loop-bytes' if 'STR' in seq else '') + (':one-line-loop' if oneline else '')
                if oneline:
                    compare_lines(dialect, listo, lines, how, res, sig, 'seq=%s' % (seq,))
                else:
                    compare(dialect, listo, lines, how, res, sig, note='seq=%s' % (seq,))
            res['nt'].append((R.CANON[dialect], tuple(seq)))
        if res['viol']:
            res['case'] = case
    except Exception:
        import traceback
        res['viol'].append(('HARNESS', traceback.format_exc()))
        res['case'] = case
    return res


def w_several(case):
    """two or three programs listed by one invocation: the output is the concatenation of the stand-alone listings"""
    res = mkres()
    try:
        dialect = case['dialect']
        d = run.scratch()
        for seqs in case['groups']:
            for listo in case['listos']:
                texts, progs = [], []
                for seq in seqs:
                    lines = [(10 * (i + 1), SHAPES[s]) for i, s in enumerate(seq)]
                    st, text = R.listing(dialect, lines, listo)
                    if st != R.WELL:
                        break
                    texts.append(text)
                    progs.append(R.frame(dialect, lines))
                else:
                    names = []
                    for i, pr in enumerate(progs):
                        names.append(dfsrun.write(d, 'p%d.bbc' % i, pr))
                    args = ['--dialect', dialect, '--listo', str(listo)]
                    for how in ('files', 'last-on-stdin'):
                        if how == 'files':
                            r = dfsrun.basic(BIN, args + names, cwd=d)
                        else:
                            r = dfsrun.basic(BIN, args + names[:-1] + ['-'], cwd=d, stdin=progs[-1])
                        res['n'] += 1
                        if r.status() != 'exit0' or r.err or r.out != b''.join(texts):
                            res['out']['bad'] = res['out'].get('bad', 0) + 1
                            res['viol'].append(('C03:several-inputs:%s' % ('fail' if r.status() != 'exit0' else 'text'),
                                                'dialect=%s listo=%d %s, programs %s: got %r want %r' % (dialect, listo, how, seqs, r.out[:150], b''.join(texts)[:150])))
                        else:
                            res['out']['ok'] = res['out'].get('ok', 0) + 1
            res['nt'].append((R.CANON[dialect], tuple(map(tuple, seqs))))
        if res['viol']:
            res['case'] = case
    except Exception:
        import traceback
        res['viol'].append(('HARNESS', traceback.format_exc()))
        res['case'] = case
    return res


def deframe(dialect, data):
    """Inverse of frame for the repository's golden inputs (reference-side parser)."""
    lines = []
    i = 0
    if R.CANON[dialect] in R.BIG_ENDIAN:
        while i < len(data):
            if data[i] != 0x0D:
                return None
            if data[i + 1] == 0xFF and i + 2 >= len(data):
                return lines
            hi, lo, ln = data[i + 1], data[i + 2], data[i + 3]
            lines.append((hi * 256 + lo, data[i + 4:i + ln]))
            i += ln
        return None
    else:
        while i < len(data):
            ln = data[i]
            if ln == 0:
                return lines
            lo, hi = data[i + 1], data[i + 2]
            body = data[i + 3:i + ln]
            if body[-1:] != b'\r':
                return None
            lines.append((hi * 256 + lo, body[:-1]))
            i += ln
        return None


def w_golden(case):
    """Reference model vs the repository's own golden listings (validates the model), and the binary."""
    res = mkres()
    try:
        base = os.path.join(R.REPO, 'basic', 'testdata')
        for dialect in sorted(os.listdir(os.path.join(base, 'inputs'))):
            for f in sorted(os.listdir(os.path.join(base, 'inputs', dialect))):
                data = open(os.path.join(base, 'inputs', dialect, f), 'rb').read()
                lines = deframe(dialect, data)
                if lines is None:
                    continue
                for listo in range(8):
                    g = None
                    for ext in ('txt', 'bin'):
                        gp = os.path.join(base, 'golden', dialect, '%s_listo%d.%s' % (f, listo, ext))
                        if os.path.exists(gp):
                            g = open(gp, 'rb').read()
                    st, text = R.listing(dialect, lines, listo)
                    if st != R.WELL:
                        res['out']['golden-out-of-domain'] = res['out'].get('golden-out-of-domain', 0) + 1
                        continue
                    if g is not None:
                        res['n'] += 1
                        if g != text:
                            res['viol'].append(('C03:golden:model-vs-golden', 'reference model disagrees with golden '
                                                'listing %s/%s listo %d' % (dialect, f, listo)))
                        else:
                            res['out']['model=golden'] = res['out'].get('model=golden', 0) + 1
                    for how in ('file', 'stdin'):
                        compare(dialect, listo, lines, how, res, 'C03:golden', note=f)
                    res['nt'].append((dialect, f, listo))
        if res['viol']:
            res['case'] = case
    except Exception:
        import traceback
        res['viol'].append(('HARNESS', traceback.format_exc()))
        res['case'] = case
    return res


def worker(case):
    return {'bytes': w_bytes, 'triples': w_triples, 'linenum': w_linenum, 'numbers': w_numbers,
            'indent': w_indent, 'golden': w_golden, 'several': w_several}[case['w']](case)


# ---------------------------------------------------------------------------- families
def fam_golden(tier):
    """reference model == repository golden listings == binary, all LISTO values, file and stdin"""
    yield {'w': 'golden'}


def fam_l1(tier):
    """every single byte outside quotes and every byte 0x01-0xFF inside quotes, 10 dialect names x LISTO 0..7 x file/stdin"""
    for dialect in R.DIALECT_NAMES:
        for listo in range(8):
            for how in ('file', 'stdin'):
                yield {'w': 'bytes', 'mode': 'single', 'dialect': dialect, 'listo': listo, 'how': how,
                       'firsts': list(range(1, 256))}


def fam_l2(tier):
    """all ordered byte pairs (255^2) outside quotes and inside quotes, per distinct dialect"""
    firsts_all = list(range(1, 256))
    if tier == 'quick':
        # reduced first-byte alphabet of 64 (all second bytes)
        firsts_all = sorted(set([0x01, 0x05, 0x0F, 0x10, 0x11, 0x18, 0x1F, 0x20, 0x22, 0x23, 0x24, 0x3A, 0x41, 0x4F,
                                 0x50, 0x5F, 0x7E, 0x7F, 0x80, 0x8A, 0x8B, 0x8C, 0x8E, 0x8F, 0x90, 0x98, 0x99, 0xA6, 0xA7,
                                 0xA9, 0xB8, 0xC5, 0xC6, 0xC7, 0xC8, 0xC9, 0xCA, 0xCB, 0xCC, 0xCD, 0xCE, 0xCF, 0xD1,
                                 0xD3, 0xD4, 0xDC, 0xE3, 0xE5, 0xED, 0xF1, 0xF4, 0xF5, 0xF6, 0xFB, 0xFD, 0xFE, 0xFF,
                                 0x0D, 0x0E, 0x17, 0x19, 0x30, 0x61, 0x9A]))
    names = R.DISTINCT if tier == 'quick' else R.DIALECT_NAMES
    for dialect in names:
        for i in range(0, len(firsts_all), 8):
            yield {'w': 'bytes', 'mode': 'pair', 'dialect': dialect, 'listo': 0 if tier == 'quick' else (i // 8) % 8,
                   'how': 'file' if (i // 8) % 2 == 0 else 'stdin', 'firsts': firsts_all[i:i + 8]}


def fam_l3(tier):
    """all triples over a 20-class byte alphabet, also following a line-number reference"""
    for dialect in R.DIALECT_NAMES:
        for listo in ((0, 7) if tier == 'quick' else range(8)):
            yield {'w': 'triples', 'dialect': dialect, 'listo': listo, 'how': 'file' if listo % 2 == 0 else 'stdin'}


def fam_l4(tier):
    """all 65536 line-number references (canonical encoding); thorough: all 2^24 operand triples"""
    for dialect in R.DIALECT_NAMES:
        for lo in range(0, 65536, 8192):
            yield {'w': 'linenum', 'mode': 'canon', 'dialect': dialect, 'listo': 7 if lo % 16384 else 0,
                   'how': 'file' if lo % 16384 else 'stdin', 'lo': lo, 'hi': lo + 8192}
    b1s = list(range(1, 256)) if tier == 'thorough' else [0x54, 0x44, 0x64, 0x74, 0x14, 0x01, 0xFF, 0x80]
    for dialect in (['6502', 'Z80'] if tier == 'thorough' else ['6502']):
        for b1 in b1s:
            yield {'w': 'linenum', 'mode': 'raw', 'dialect': dialect, 'listo': 0, 'how': 'file', 'b1': [b1]}


def fam_l5(tier):
    """line numbers {0,1,..,32767,32768,65279|65535} x body lengths {0..251} x LISTO; 0/1/2/300 lines"""
    for dialect in R.DIALECT_NAMES:
        for how in ('file', 'stdin'):
            yield {'w': 'numbers', 'dialect': dialect, 'how': how, 'listos': list(range(8))}


def fam_l6(tier):
    """every sequence of <=4 (quick) / <=5 lines over the loop shapes that the manual defines, x LISTO 0..7"""
    shapes = ['FOR', 'FOR2', 'NEXT', 'NEXT2', 'REPEAT', 'UNTIL', 'FORREP', 'NEXTUNTIL', 'PLAIN', 'STR']
    depth = 4 if tier == 'quick' else 5
    seqs = []
    for k in range(1, depth + 1):
        for seq in itertools.product(shapes, repeat=k):
            # prune sequences the reference calls out-of-domain at LISTO 7 (closing more than is open)
            st, _ = R.listing('6502', [(1, SHAPES[s]) for s in seq], 7)
            if st == R.WELL:
                seqs.append(seq)
    # lines that open and close a loop on the same line (one-line loops), at every position of short sequences
    shapes2 = ['FORNEXT', 'REPUNTIL', 'NEXTFOR', 'FOR', 'NEXT', 'REPEAT', 'UNTIL', 'PLAIN']
    for k in range(1, (4 if tier == 'quick' else 5)):
        for seq in itertools.product(shapes2, repeat=k):
            if not any(s in ('FORNEXT', 'REPUNTIL', 'NEXTFOR') for s in seq):
                continue
            st, _ = R.listing_lines('6502', [(1, SHAPES[s]) for s in seq], 7)
            if st == R.WELL:
                seqs.append(seq)
    dialects = ['6502', 'Z80', 'ARM', 'Windows'] if tier == 'quick' else R.DISTINCT
    for di, dialect in enumerate(dialects):
        for i in range(0, len(seqs), 200):
            yield {'w': 'indent', 'dialect': dialect, 'how': 'file' if (i // 200) % 2 else 'stdin',
                   'seqs': seqs[i:i + 200], 'listos': list(range(8)) if tier == 'thorough' or di == 0 else [7, 2, 4]}


def fam_l7(tier):
    """two (and selected three) programs in one invocation, each every loop-shape sequence of <=2 lines (so programs that end inside open FOR/REPEAT loops come first, in the middle and last): output = concatenation of the stand-alone listings, files and file+stdin"""
    shapes = ['FOR', 'FOR2', 'REPEAT', 'FORREP', 'PLAIN', 'NEXT', 'UNTIL']
    progs = [s for k in (1, 2) for s in itertools.product(shapes, repeat=k) if R.listing('6502', [(1, SHAPES[x]) for x in s], 7)[0] == R.WELL]
    groups = [[a, b] for a in progs for b in progs]
    groups += [[a, b, c] for a in progs[:6] for b in progs[:6] for c in progs[:3]]
    dialects = ['6502', 'Z80'] if tier == 'quick' else R.DISTINCT
    for dialect in dialects:
        for i in range(0, len(groups), 60):
            yield {'w': 'several', 'dialect': dialect, 'groups': [[list(x) for x in g] for g in groups[i:i + 60]],
                   'listos': [7, 0] if tier == 'quick' else [7, 2, 4, 1, 0]}


FAMILIES = [('L7-several-programs-per-invocation', fam_l7), ('G-golden-crosscheck', fam_golden), ('L1-single-bytes', fam_l1), ('L5-line-numbers-lengths', fam_l5),
            ('L4-line-number-references', fam_l4), ('L3-class-triples', fam_l3), ('L6-loop-indentation', fam_l6),
            ('L2-byte-pairs', fam_l2)]


def main(tier, seed):
    ctx = core.Ctx(PID, tier, 'exploration', seed, quick_s=220, thorough_s=2400)
    ctx.rule = ('Programs are generated from enumerated line bodies; the reference listing (lib/basic_ref.py, transcribed '
                'from doc/bbcbasic.5 and intersected with golden-token-map.txt) is compared byte for byte with the real '
                'binary. Only bodies the documentation fully defines are generated. Non-trivial = distinct '
                '(dialect, line body) / (dialect, line number, length, LISTO) / (dialect, loop sequence) cases.')
    ctx.assumptions = ['plain build', 'doc/bbcbasic.5 tables as transcribed in lib/basic_ref.py',
                       'bytes on which man page and golden token map disagree are outside the domain '
                       '(0x7F outside ARM/Mac; Mac 0xC8 0x99-0xA6; Mac 0xFB; Windows 0x11-0x17)']
    ctx.explore(FAMILIES, worker, tier, chunksize=1)
    ctx.samples = [
        {'family': 'L2', 'dialect': 'ARM', 'body_hex': 'c795', 'expected': 'LOAD'},
        {'family': 'L4', 'dialect': 'Z80', 'body_hex': 'e58d744a40', 'expected': 'GOTO10'},
        {'family': 'L6', 'dialect': '6502', 'listo': 7, 'lines': ['FOR', 'REPEAT', 'PLAIN', 'UNTIL', 'NEXT']}]
    return ctx.finish()


def replay(rec):
    res = worker(rec['case'])
    for sig, text in res['viol']:
        print('replayed violation:', sig, text)
    if any(s == rec['signature'] for s, _ in res['viol']):
        print('VIOLATION property=%s replay=(replayed)' % PID)
        return 1
    print('no violation on replay')
    return 0
