"""C15 — wildcards and file names select exactly the files DFS semantics say.
Exhaustive: all patterns of length <=3 over a 23-character alphabet (including every regex metacharacter)
and all qualified shapes, x all names of length <=2 x directories x context, through the real AFSPMatcher
in-process; `info`/`type` through the real binary; oracle = a small recursive matcher written from doc/dfs.1."""
import os, re, itertools, struct
from lib import core, run, dfsrun, mcx, disc, render

VARIANTS = ['san', 'plain']
PID = 'C15'

SIGMA = ['A', 'a', 'b', '1', '!', '#', '*', '.', ':', '0', '^', '$', '[', ']', '(', ')', '\\', '+', '?', '|', '{', '}', '-']
NAMECH = [c for c in SIGMA if c not in '.:#*']
DIRS = ['$', 'A', 'a', '^']
DIRS_DEFAULT = DIRS


def metaclass(p):
    """structural class of a pattern for signatures: which regex metacharacter is involved"""
    for ch, nm in (('^', 'caret'), ('\\', 'backslash'), ('[', 'bracket'), (']', 'bracket'), ('(', 'paren'), (')', 'paren'),
                   ('{', 'brace'), ('}', 'brace'), ('+', 'plus'), ('?', 'query'), ('|', 'bar'), ('$', 'dollar'), ('-', 'dash')):
        if ch in p:
            return nm
    return ''


def mkres():
    return {'n': 0, 'out': {}, 'viol': [], 'nt': [], 'case': None}


def bump(res, k, n=1):
    res['out'][k] = res['out'].get(k, 0) + n


# ------------------------------------------------------------------ reference (from doc/dfs.1)
def ref_parse(pattern, cur_drive, cur_sub, cur_dir):
    """-> ('ok', (drive, sub), dirpat, namepat) | ('ill',) for strings outside the documented grammar"""
    rest = pattern
    vol = (cur_drive, cur_sub)
    if rest.startswith(':'):
        m = re.match(r'^:(\d+)([A-H]?)\.', rest)
        if not m:
            return ('ill',)
        vol = (int(m.group(1)), m.group(2) or None)
        rest = rest[m.end():]
    if len(rest) >= 2 and rest[1] == '.' and rest[0] != '.':
        dirpat, namepat = rest[0], rest[2:]
    else:
        dirpat, namepat = cur_dir, rest
    if namepat == '' or '.' in namepat or ':' in namepat or ':' in dirpat:
        return ('ill',)
    if len(namepat) > 7 and '*' not in namepat:
        pass
    return ('ok', vol, dirpat, namepat)


def wild(p, s):
    """'#' one char (not '.'), '*' any run (no '.'), letters case-insensitive, everything else literal"""
    if not p:
        return not s
    c = p[0]
    if c == '*':
        return any(wild(p[1:], s[k:]) for k in range(len(s) + 1) if '.' not in s[:k])
    if not s:
        return False
    if c == '#':
        return s[0] != '.' and wild(p[1:], s[1:])
    if c.lower() == s[0].lower() if c.isalpha() and c.isascii() else c == s[0]:
        return wild(p[1:], s[1:])
    return False


def ref_match(parsed, d, name):
    _, vol, dirpat, namepat = parsed
    return wild(dirpat, d) and wild(namepat, name)


ALLNAMES = [a for a in NAMECH] + [a + b for a in NAMECH for b in NAMECH]
ALLNAMES_DEFAULT = ALLNAMES


def w_matrix(case):
    """patterns x all names x dirs through the real matcher (in-process, ASan)"""
    res = mkres()
    try:
        cd, cs, cdir = case['ctx']
        req = b''
        pats = case['patterns']
        DIRS, ALLNAMES = case.get('dirs', DIRS_DEFAULT), case.get('names', ALLNAMES_DEFAULT)
        targets = [(d, n) for d in DIRS for n in ALLNAMES]
        # the volume offered to matches() is the pattern's own volume (as `info` does); ask in two passes
        first = b''.join(mcx.req_afsp(cd, cs, cdir, p.encode('latin-1'), []) for p in pats)
        variant = case.get('variant', 'san')
        r = mcx.call(variant, first)
        if r.status() != 'exit0':
            from lib import mcb
            k, fr = mcb.san_kind(r.err)
            res['viol'].append(('C15:matcher:crash:%s:%s' % (k, fr), r.err[-400:].decode('latin-1')))
            res['case'] = case
            return res
        rd = mcx.Reader(r.out)
        info = []
        for p in pats:
            valid = rd.u8()
            err = rd.str()
            vol = rd.vol()
            info.append((valid, err, vol))
        req = b''
        idx = []
        for p, (valid, err, vol) in zip(pats, info):
            parsed = ref_parse(p, cd, cs, cdir)
            if parsed[0] == 'ok':
                if not valid:
                    bump(res, 'wellformed-rejected')
                    meta = metaclass(p)
                    res['viol'].append(('C15:matcher:wellformed-pattern-rejected:%s' % (meta or 'plain'),
                                        'pattern %r (context :%d%s.%s) is a well-formed wildcard but is rejected: %r' % (p, cd, cs or '', cdir, err[:80])))
                    continue
                if vol != parsed[1]:
                    res['viol'].append(('C15:matcher:volume', 'pattern %r: volume %r, expected %r' % (p, vol, parsed[1])))
                    continue
                req += mcx.req_afsp(cd, cs, cdir, p.encode('latin-1'), [(vol[0], vol[1], d, n.encode('latin-1')) for d, n in targets])
                idx.append((p, parsed))
            else:
                bump(res, 'ill-formed-' + ('accepted' if valid else 'rejected'))
            res['n'] += 1
        if req:
            r = mcx.call(variant, req)
            if r.status() != 'exit0':
                from lib import mcb
                k, fr = mcb.san_kind(r.err)
                res['viol'].append(('C15:matcher:crash:%s:%s' % (k, fr), r.err[-400:].decode('latin-1')))
                res['case'] = case
                return res
            rd = mcx.Reader(r.out)
            for p, parsed in idx:
                rd.u8()
                rd.str()
                rd.vol()
                dm = {d: wild(parsed[2], d) for d in DIRS}
                nm = {n: wild(parsed[3], n) for n in ALLNAMES}
                want_all = bytes(1 if (dm[d] and nm[n]) else 0 for d, n in targets)
                got_all = rd.bytes(len(targets))
                if got_all == want_all:
                    bump(res, 'agree', len(targets))
                else:
                    for (d, n), got, want in zip(targets, got_all, want_all):
                        if got == want:
                            bump(res, 'agree')
                            continue
                        bump(res, 'mismatch')
                        cls = 'case' if (p.lower() != p or p.upper() != p) and ref_match(('ok', None, parsed[2].lower(), parsed[3].lower()), d.lower(), n.lower()) == bool(got) else 'wild'
                        meta = metaclass(p)
                        res['viol'].append(('C15:matcher:%s:%s' % ('false-match' if got else 'missed-match', meta or cls),
                                            'pattern %r (context :%d%s.%s) vs %s.%s: matcher says %d, DFS semantics say %d' % (
                                                p, cd, cs or '', cdir, d, n, got, want)))
                res['n'] += len(targets)
        res['ntcount'] = len(pats) * len(targets)
        res['nt'].append((tuple(case['ctx']), pats[0], len(pats)))
        if res['viol']:
            res['case'] = case
    except Exception:
        import traceback
        res['viol'].append(('HARNESS', traceback.format_exc()))
        res['case'] = case
    return res


CAT_NAMES = [('$', 'A'), ('$', 'b'), ('A', 'A1'), ('a', 'B!'), ('^', '^'), ('$', '^A'), ('A', '$'), ('$', '['), ('$', ']'),
             ('$', '(a)'), ('$', '\\'), ('$', 'a+'), ('$', 'a?'), ('$', 'a|b'), ('$', '{1}'), ('$', '-'), ('[', 'x'), ('$', 'AB'),
             ('B', 'ab'), ('$', '!BOOT'), ('$', 'a-b'), ('$', '1'), ('$', 'LONGNAM'), ('L', 'longnaM')]


def make_cat_image():
    ents = []
    for i, (d, n) in enumerate(CAT_NAMES):
        ents.append(disc.Entry(n.encode('latin-1'), d.encode('latin-1'), False, 0, 0, 10 + i, 2 + i))
    ents.reverse()
    return disc.acorn_surface(disc.Volume(ents, b'AFSP'), 400, b'a'), ents


def w_info(case):
    """`info PATTERN` on a real catalogue: the set of lines printed"""
    res = mkres()
    try:
        img, ents = make_cat_image()
        d = run.fresh_dir('c15')
        dfsrun.write(d, 'img.ssd', img)
        cdir = case['dir']
        for p in case['patterns']:
            r = dfsrun.dfs('plain', ['--file', 'img.ssd', '--dir', cdir, 'info', '--', p] if False else ['--file', 'img.ssd', '--dir', cdir, 'info', p], d)
            res['n'] += 1
            parsed = ref_parse(p, 0, None, cdir)
            if parsed[0] != 'ok' or parsed[1] != (0, None):
                if r.sig or r.timeout:
                    res['viol'].append(('C15:info:crash', '%r: %s' % (p, r.status())))
                else:
                    bump(res, 'outside-grammar-or-other-drive')
                continue
            want = [(e.dir, e.name) for e in reversed(ents[::-1]) if ref_match(parsed, e.dir.decode('latin-1'), e.name.decode('latin-1'))]
            if r.status() != 'exit0':
                meta = metaclass(p)
                bump(res, 'rejected')
                res['viol'].append(('C15:info:wellformed-pattern-rejected:%s' % (meta or 'plain'), 'info %r (--dir %s): %s %r' % (p, cdir, r.status(), r.err[:100])))
                continue
            try:
                rows = render.parse_info(r.out)
            except render.ParseError as e:
                res['viol'].append(('C15:info:parse', str(e)))
                continue
            got = [(x['dir'], x['name']) for x in rows]
            if got != want:
                bump(res, 'mismatch')
                res['viol'].append(('C15:info:selection', 'info %r (--dir %s) listed %s, expected %s' % (p, cdir, got[:6], want[:6])))
            else:
                bump(res, 'agree')
            res['nt'].append((cdir, p))
        if res['viol']:
            res['case'] = case
    except Exception:
        import traceback
        res['viol'].append(('HARNESS', traceback.format_exc()))
        res['case'] = case
    return res


def case_variants(s):
    out = set([s, s.lower(), s.upper(), s.swapcase()])
    # a "case fold" that ignores bit 5 of every character would also identify @ with `, [ with {, \ with |,
    # ] with }, ^ with ~ : those spellings are different names and must not be found
    part = ''.join(chr(ord(c) ^ 0x20) if c in '@[\\]^_`{|}~' else c for c in s)
    out.add(part)
    return sorted(out)


def w_type(case):
    """`type SPELLING`: found iff drive, directory and name match case-insensitively"""
    res = mkres()
    try:
        d = run.fresh_dir('c15')
        if case.get('opus'):
            vols = {}
            for i, L in enumerate('ABCDEFGH'):
                vols[L] = (1 + i, disc.Volume([disc.Entry(b'SAME', b'D', False, 0, 0, 30 + i, 1),
                                               disc.Entry(b'F' + L.encode(), b'$', False, 0, 0, 20 + i, 0)], b'V' + L.encode(), 0, 0, 18))
            img, ext = disc.opus_surface(vols, 40, b'o')
            dfsrun.write(d, 'img.sdd', img)
            for L in 'ABCDEFGH':
                for spelling, dirname, expect_vol in ((':0%s.$.F%s' % (L, L), ('$', 'F' + L), L), (':0%s.d.same' % L, ('D', 'SAME'), L),
                                                      (':0%s.$.FA' % L, ('$', 'FA'), L)):
                    r = dfsrun.dfs('plain', ['--file', 'img.sdd', 'type', '--binary', spelling], d)
                    res['n'] += 1
                    exists = any(e.name.decode().lower() == dirname[1].lower() and e.dir.decode().lower() == dirname[0].lower()
                                 for e in vols[L][1].entries)
                    check_type(res, r, spelling, exists, [disc.file_body(b'o' + L.encode(), e) for e in vols[L][1].entries
                                                          if e.name.decode().lower() == dirname[1].lower() and e.dir.decode().lower() == dirname[0].lower()], 'opus')
                r = dfsrun.dfs('plain', ['--file', 'img.sdd', '--drive', '0' + L, 'info', '#.*'], d)
                res['n'] += 1
                rows = render.parse_info(r.out) if r.status() == 'exit0' else None
                want = [(e.dir, e.name) for e in vols[L][1].entries]
                if rows is None or [(x['dir'], x['name']) for x in rows] != want:
                    res['viol'].append(('C15:opus:info-volume', 'info #.* --drive 0%s: %r' % (L, r.err[:80])))
                r = dfsrun.dfs('plain', ['--file', 'img.sdd', 'info', ':0%s.#.*' % L], d)
                res['n'] += 1
                rows = render.parse_info(r.out) if r.status() == 'exit0' else None
                if rows is None or [(x['dir'], x['name']) for x in rows] != want:
                    res['viol'].append(('C15:opus:info-volume-prefix', 'info :0%s.#.*: %s %r' % (L, r.status(), r.err[:80])))
                else:
                    bump(res, 'opus-ok')
            res['nt'].append('opus')
        elif case.get('watford'):
            n1, n2 = case['watford']
            e1 = [disc.Entry(b'A%02d' % i, b'$' if i % 3 else b'W', False, 0, 0, 10 + i, 4 + i) for i in range(n1)]
            e2 = [disc.Entry(b'B%02d' % i, b'$' if i % 2 else b'X', False, 0, 0, 50 + i, 40 + i) for i in range(n2)]
            e1.reverse()
            e2.reverse()
            img = disc.acorn_surface(disc.Volume(e1, b'WATF', 1, 0, 400, e2), 400, b'w', watford=True)
            dfsrun.write(d, 'img.ssd', img)
            for e in e1 + e2:
                nm, dd = e.name.decode(), e.dir.decode()
                half = 'first' if e in e1 else 'second'
                for cmd in (['type', '--binary'], ['list'], ['dump']):
                    for sp in ('%s.%s' % (dd, nm), ':0.%s.%s' % (dd.lower(), nm.lower())):
                        r = dfsrun.dfs('plain', ['--file', 'img.ssd', '--dir', 'Q'] + cmd + [sp], d)
                        res['n'] += 1
                        if r.status() != 'exit0' or (cmd[0] == 'type' and r.out != disc.file_body(b'w', e)):
                            bump(res, 'not-found-but-exists')
                            res['viol'].append(('C15:type:watford:existing-file-not-found:%s-catalogue:%s' % (half, cmd[0]),
                                                'Watford disc with %d+%d entries: %s %s: %s %r' % (n1, n2, cmd[0], sp, r.status(), r.err[:80])))
                        else:
                            bump(res, 'found')
                r = dfsrun.dfs('plain', ['--file', 'img.ssd', 'info', '%s.%s' % (dd, nm)], d)
                res['n'] += 1
                rows = render.parse_info(r.out) if r.status() == 'exit0' else []
                if [(x['dir'], x['name']) for x in rows] != [(e.dir, e.name)]:
                    res['viol'].append(('C15:info:watford:%s-catalogue' % half, 'info %s.%s on a %d+%d disc: %r' % (dd, nm, n1, n2, rows)))
            for sp in ('$.NOSUCH', 'B99', 'W.B01'):
                r = dfsrun.dfs('plain', ['--file', 'img.ssd', 'type', sp], d)
                res['n'] += 1
                check_type(res, r, sp, False, [], 'watford')
            res['nt'].append(('watford', n1, n2))
        else:
            img, ents = make_cat_image()
            dfsrun.write(d, 'img.ssd', img)
            dfsrun.write(d, 'two.ssd', img)
            for (dd, nn) in CAT_NAMES[case['lo']:case['hi']]:
                for nm in case_variants(nn):
                    for dr in case_variants(dd):
                        for cur in ('$', dd, 'Q'):
                            spellings = [('%s.%s' % (dr, nm), dr, 0), (':0.%s.%s' % (dr, nm), dr, 0), (':1.%s.%s' % (dr, nm), dr, 1),
                                         (nm, cur, 0), (':0.%s' % nm, cur, 0)]
                            for sp, effdir, drive in spellings:
                                if len(nm) == 1 and sp == nm and False:
                                    continue
                                # documented grammar: a name of the form X.Y is directory X, name Y
                                pf = sp.split('.')
                                r = dfsrun.dfs('plain', ['--file', 'img.ssd', '--dir', cur, 'type', '--binary', '--', sp], d)
                                res['n'] += 1
                                # the bare spelling NAME of a name that itself looks like "D.N" cannot occur (names have no '.')
                                matches = [e for e in ents if e.name.decode('latin-1').lower() == nm.lower()
                                           and e.dir.decode('latin-1').lower() == effdir.lower()]
                                exists = bool(matches) and drive == 0
                                check_type(res, r, sp + ' (--dir %s)' % cur, exists, [disc.file_body(b'a', e) for e in matches],
                                           'dir-case' if (effdir != dd and effdir.lower() == dd.lower()) else ('name-case' if nm != nn else 'exact'))
                                res['nt'].append((sp, cur))
        if res['viol']:
            res['case'] = case
    except Exception:
        import traceback
        res['viol'].append(('HARNESS', traceback.format_exc()))
        res['case'] = case
    return res


def check_type(res, r, sp, exists, bodies, cls):
    if r.sig or r.timeout:
        res['viol'].append(('C15:type:crash', '%s: %s' % (sp, r.status())))
    elif exists:
        if r.status() != 'exit0' or r.out not in bodies:
            bump(res, 'not-found-but-exists')
            res['viol'].append(('C15:type:existing-file-not-found:%s' % cls, 'type %s: %s %r although the catalogue holds that file' % (sp, r.status(), r.err[:80])))
        else:
            bump(res, 'found')
    else:
        if r.status() == 'exit0':
            bump(res, 'found-but-absent')
            res['viol'].append(('C15:type:nonexistent-file-found:%s' % cls, 'type %s succeeded with %d bytes' % (sp, len(r.out))))
        elif b'not found' not in r.err and b'there is no disc' not in r.err and b'failed to select' not in r.err:
            res['viol'].append(('C15:type:not-reported-as-not-found', 'type %s: %r' % (sp, r.err[:100])))
        else:
            bump(res, 'not-found')


def worker(case):
    return {'matrix': w_matrix, 'info': w_info, 'type': w_type}[case['w']](case)


def all_patterns(maxlen):
    for k in range(1, maxlen + 1):
        for t in itertools.product(SIGMA, repeat=k):
            yield ''.join(t)


def shaped_patterns():
    bodies = [''.join(t) for k in (1, 2) for t in itertools.product(SIGMA, repeat=k)]
    for drv in ('', ':0.', ':1.', ':0B.', ':12.'):
        for dr in ('', '$.', 'A.', 'a.', '#.', '*.', '^.', '[.'):
            if not drv and not dr:
                continue
            for b in bodies:
                yield drv + dr + b


def fam_matrix(tier):
    """all patterns of length <=2 (quick) / <=3 over the 23-character alphabet + all qualified shapes, x all names of length <=2 x 4 directories x 3 contexts"""
    pats = list(all_patterns(2 if tier == 'quick' else 3))
    shaped = list(shaped_patterns())
    if tier == 'quick':
        shaped = shaped[::4]
    ctxs = [(0, None, '$'), (1, None, 'A'), (0, 'B', 'a')]
    for ci, ctx in enumerate(ctxs):
        use = pats + shaped if ci == 0 or tier == 'thorough' else pats[:600] + shaped[::5]
        for i in range(0, len(use), 40):
            # the matcher recompiles a regular expression for every name it is offered; under ASan that dominates,
            # so one shard in eight runs on the ASan build and the rest on the plain build
            yield {'w': 'matrix', 'ctx': list(ctx), 'patterns': use[i:i + 40], 'variant': 'san' if (i // 40) % 8 == 0 else 'plain'}


PRINTABLE = [chr(c) for c in range(0x21, 0x7F) if chr(c) not in '.:#*']


def fam_printable(tier):
    """every printable character c that may occur in a DFS name, in 9 pattern shapes, against names built from every
    printable character (c alone, before/after a letter, doubled) and as directory character"""
    names = ['A', 'AA', 'AB'] + [x for x in PRINTABLE] + ['A' + x for x in PRINTABLE] + [x + 'A' for x in PRINTABLE] + [x + x for x in PRINTABLE]
    names = sorted(set(names))
    for c in PRINTABLE:
        pats = [c, 'A' + c, c + 'A', '*' + c, c + '*', '#' + c, c + '#', 'A' + c + '*', c + c]
        yield {'w': 'matrix', 'ctx': [0, None, '$'], 'patterns': pats, 'names': names, 'dirs': ['$'], 'variant': 'plain'}
    for i in range(0, len(PRINTABLE), 8):
        pats = [c + '.A' for c in PRINTABLE[i:i + 8]] + [c + '.*' for c in PRINTABLE[i:i + 8]]
        yield {'w': 'matrix', 'ctx': [0, None, '$'], 'patterns': pats, 'names': ['A', 'a', 'B'], 'dirs': PRINTABLE, 'variant': 'san'}


def fam_info(tier):
    """info PATTERN through the real binary on a catalogue of metacharacter names: all patterns of length <=2 + shapes"""
    pats = list(all_patterns(2)) + [p for p in shaped_patterns() if p.startswith(':0.') or not p.startswith(':')][::(3 if tier == 'quick' else 1)]
    pats += ['LONGNAM', 'longnam', 'L*', '*M', '#ONGNA#', '*.LONGNAM', '#######', '########', '*BOOT', '!*', 'a-b', 'a|b', '(a)', '{1}', 'a+', 'a?']
    for cdir in ('$', 'A', 'a'):
        for i in range(0, len(pats), 60):
            yield {'w': 'info', 'dir': cdir, 'patterns': pats[i:i + 60]}


def fam_type(tier):
    """type lookups: every spelling (NAME, D.NAME, :n.D.NAME, :n.NAME) x case variants x --dir; Opus :0A..:0H prefixes"""
    for lo in range(0, len(CAT_NAMES), 2):
        yield {'w': 'type', 'lo': lo, 'hi': lo + 2}
    yield {'w': 'type', 'opus': True}
    # Watford: every fill of the two catalogue halves from a small set (lookups must search both halves whatever their fill)
    for n1 in (0, 1, 5, 30, 31):
        for n2 in (0, 1, 17, 31):
            if n1 + n2:
                yield {'w': 'type', 'watford': [n1, n2]}


FAMILIES = [('T-type-lookups', fam_type), ('I-info-cli', fam_info), ('P-every-printable-character', fam_printable), ('M-matcher-matrix', fam_matrix)]


def main(tier, seed):
    ctx = core.Ctx(PID, tier, 'exploration', seed, quick_s=240, thorough_s=2400)
    ctx.rule = ('Patterns: every string of length <=2/3 over {A a b 1 ! # * . : 0 ^ $ [ ] ( ) \\ + ? | { } -} plus every '
                'qualified shape [:drive.][dir.]body; names: every string of length <=2 over the same set minus {. : # *} in '
                'directories {$ A a ^}. The real AFSPMatcher (in-process, ASan) and `info`/`type` of the real binary are compared '
                'with a reference matcher written from doc/dfs.1 (# one char, * any run, never matching ".", letters '
                'case-insensitive, everything else literal). Strings outside the documented grammar only have to not crash. '
                'Non-trivial = every (pattern, name) pair / spelling.')
    ctx.assumptions = ['catalogue names never contain . : # *']
    for name, gen in FAMILIES:
        ctx.family(name, (gen.__doc__ or '').strip())
        if run.Deadline.hit or ctx.timed_out():
            ctx.done(name, False)
            continue
        for res in run.pmap(worker, gen(tier), chunksize=1, deadline=ctx.deadline):
            ctx.absorb(res)
            extra = res.get('ntcount', 0)
            if extra:
                ctx.cur['distinct_nontrivial'] += extra
                ctx.bulk_nt = getattr(ctx, 'bulk_nt', 0) + extra
        ctx.done(name, not run.Deadline.hit)
    ctx.samples = [{'family': 'M', 'pattern': '^*', 'context': ':0.$', 'name': '$.^A', 'expected': 'match'},
                   {'family': 'T', 'spelling': 'a.b!', 'catalogue_entry': 'a.B!'}]
    return ctx.finish()


def replay(rec):
    res = worker(rec['case'])
    for sig, text in res['viol']:
        print('replayed violation:', sig, text[:300])
    if any(s == rec['signature'] for s, _ in res['viol']):
        print('VIOLATION property=%s replay=(replayed)' % PID)
        return 1
    print('no violation on replay')
    return 0
