/* mcb: thin in-process executor for basic/{lines,tokens,decoder}.c.  No oracle lives here.
 * stdin : records  [u8 dialect-name-length][name][u8 listo][u8 nfiles]{[u32le len][bytes]}*nfiles
 *         The files of one record are decoded one after another in this process *without* any
 *         reset in between (exactly what bbcbasic_to_text does for several command-line files).
 * result fd (a dup of the original stdout): per file
 *         [u8 ret][u32le stdout_len][stdout bytes][u32le stderr_len][stderr bytes (first 200)]
 * Between records nothing is reset either; the caller decides what a "history" is by choosing
 * what to put in one process. */
#define _GNU_SOURCE
#include <sys/prctl.h>
#include <signal.h>
#include <stdio.h>
#include <stdlib.h>
#include <string.h>
#include <unistd.h>
#include <stdint.h>
#include <sys/mman.h>
#include "decoder.h"
#include "tokens.h"

static int resfd, outfd, errfd, infd;

static int read_full(int fd, void *buf, size_t n) {
  size_t got = 0;
  while (got < n) {
    ssize_t r = read(fd, (char*)buf + got, n - got);
    if (r <= 0) return 0;
    got += (size_t)r;
  }
  return 1;
}
static void write_full(int fd, const void *buf, size_t n) {
  size_t done = 0;
  while (done < n) {
    ssize_t r = write(fd, (const char*)buf + done, n - done);
    if (r <= 0) _exit(90);
    done += (size_t)r;
  }
}
static void put32(uint32_t v) { unsigned char b[4] = {v & 255, (v >> 8) & 255, (v >> 16) & 255, (v >> 24) & 255}; write_full(resfd, b, 4); }

static unsigned char *slurp(int fd, uint32_t *len) {
  off_t n = lseek(fd, 0, SEEK_CUR);
  unsigned char *p = malloc((size_t)n + 1);
  if (n > 0 && pread(fd, p, (size_t)n, 0) != n) _exit(91);
  *len = (uint32_t)n;
  if (ftruncate(fd, 0) != 0) _exit(92);
  lseek(fd, 0, SEEK_SET);
  return p;
}

int main(void) {
  prctl(PR_SET_PDEATHSIG, SIGKILL);   /* die with the harness process that started us */
  int src = dup(0);
  resfd = dup(1);
  outfd = memfd_create("out", 0);
  errfd = memfd_create("err", 0);
  infd = memfd_create("in", 0);
  dup2(outfd, 1);
  dup2(errfd, 2);
  static unsigned char buf[1 << 20];
  for (;;) {
    unsigned char nl;
    if (!read_full(src, &nl, 1)) break;
    char name[64];
    if (!read_full(src, name, nl)) return 80;
    name[nl] = 0;
    unsigned char listo, nfiles;
    if (!read_full(src, &listo, 1) || !read_full(src, &nfiles, 1)) return 81;
    enum Dialect d;
    if (!set_dialect(name, &d)) return 82;
    for (unsigned k = 0; k < nfiles; ++k) {
      unsigned char lb[4];
      if (!read_full(src, lb, 4)) return 83;
      uint32_t len = lb[0] | lb[1] << 8 | lb[2] << 16 | (uint32_t)lb[3] << 24;
      if (len > sizeof buf) return 84;
      if (len && !read_full(src, buf, len)) return 85;
      if (ftruncate(infd, 0) != 0) return 86;
      if (len && pwrite(infd, buf, len, 0) != (ssize_t)len) return 87;
      lseek(infd, 0, SEEK_SET);
      FILE *f = fdopen(dup(infd), "rb");
      if (!f) return 88;
      struct decoder *dec = new_decoder(d, listo);
      if (!dec) return 89;
      bool ok = decode_file(dec, "input", f);
      destroy_decoder(dec);
      fclose(f);
      fflush(stdout);
      fflush(stderr);
      uint32_t ol, el;
      unsigned char *o = slurp(outfd, &ol);
      unsigned char *e = slurp(errfd, &el);
      unsigned char r = ok ? 0 : 1;
      write_full(resfd, &r, 1);
      put32(ol);
      write_full(resfd, o, ol);
      uint32_t es = el > 200 ? 200 : el;
      put32(el);
      write_full(resfd, e, es);
      free(o);
      free(e);
    }
  }
  return 0;
}
