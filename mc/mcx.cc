// mcx: thin in-process executor for the dfs library.  NO reference logic / oracle lives here.
// stdin: binary request records; stdout: binary responses.  See lib/mcx.py for the client.
//
//  'D' decode   : [u8 enc 'F'|'M'][u32 nbits][bytes, LSB-first]            -> sector list
//  'W' sweep    : [u8 enc][u8 kind][u32 param][u32 lo][u32 hi][u32 nbits][bytes]           -> per fault: sector list (compact)
//                 kind 1 flip bit i (all i); 2 delete bit i; 3 insert 0 before i; 4 insert 1 before i;
//                 5 zero `param` bytes starting at each byte boundary; 6 truncate to i bits (every i % param == 0)
//  'X' pairs    : [u8 enc][u32 nbits][bytes][u32 npos][u32 pos...]           -> flips of every unordered pair of listed positions
//  'A' afsp     : [ctx][str pattern][u32 n]{[vol][u8 dir][str name]}        -> [u8 valid][str error][vol][n match bytes]
//  'P' parse    : [ctx][str name]                                           -> [u8 ok][vol][u8 dir][str name][str error]
//  'L' alloc    : [u32 nsteps]{[u32 nsurf][u8 policy 1|2][u32 formatted mask]} -> per step [u8 ok][u32 n]{[u32 drive][u32 img][u32 surf][u8 formatted]}
//  ctx = [u32 drive][u8 subvol or 0][u8 dir] ; vol = [u32 drive][u8 subvol or 0] ; str = [u32 len][bytes]
#include <sys/prctl.h>
#include <signal.h>
#include <cstdio>
#include <cstdint>
#include <cstring>
#include <string>
#include <vector>
#include <map>
#include <memory>
#include <optional>
#include <iostream>
#include <sstream>
#include <unistd.h>
#include <fcntl.h>

#include "track.h"
#include "afsp.h"
#include "fsp.h"
#include "storage.h"
#include "dfscontext.h"
#include "driveselector.h"
#include "geometry.h"

static std::string outbuf;
static int resfd = 1;

static bool rd(void *p, size_t n) {
  size_t got = 0;
  while (got < n) {
    ssize_t r = read(0, (char*)p + got, n - got);
    if (r <= 0) return false;
    got += (size_t)r;
  }
  return true;
}
static uint32_t r32() { unsigned char b[4]; if (!rd(b, 4)) _exit(70); return b[0] | b[1] << 8 | b[2] << 16 | (uint32_t)b[3] << 24; }
static uint8_t r8() { unsigned char b; if (!rd(&b, 1)) _exit(71); return b; }
static std::string rstr() { uint32_t n = r32(); std::string s(n, '\0'); if (n && !rd(&s[0], n)) _exit(72); return s; }
static void w8(uint8_t v) { outbuf.push_back((char)v); }
static void w32(uint32_t v) { for (int i = 0; i < 4; ++i) outbuf.push_back((char)((v >> (8 * i)) & 255)); }
static void wstr(const std::string& s) { w32((uint32_t)s.size()); outbuf += s; }
static void flush_out() {
  size_t done = 0;
  while (done < outbuf.size()) {
    ssize_t r = write(resfd, outbuf.data() + done, outbuf.size() - done);
    if (r <= 0) _exit(73);
    done += (size_t)r;
  }
  outbuf.clear();
}

static DFS::VolumeSelector rvol() {
  uint32_t d = r32();
  uint8_t sv = r8();
  if (sv) return DFS::VolumeSelector(DFS::SurfaceSelector(d), (char)sv);
  return DFS::VolumeSelector(DFS::SurfaceSelector(d));
}
static void wvol(const DFS::VolumeSelector& v) {
  std::ostringstream ss;
  ss << v.surface();
  w32((uint32_t)std::stoul(ss.str()));
  w8(v.subvolume() ? (uint8_t)*v.subvolume() : 0);
}

typedef std::vector<Track::Sector> Sectors;

static Sectors decode(char enc, const std::vector<Track::byte>& data, size_t nbits) {
  // BitStream derives its size from the byte vector; give it exactly ceil(nbits/8) bytes and mask the tail
  std::vector<Track::byte> d(data.begin(), data.begin() + (nbits + 7) / 8);
  if (nbits % 8) d.back() &= (Track::byte)((1u << (nbits % 8)) - 1u);
  Track::BitStream bs(d, 0, 1);
  std::streambuf* old = std::cerr.rdbuf(nullptr);     // the FM decoder chatters on cerr
  Sectors s = enc == 'F' ? Track::decode_fm_track(bs, false) : Track::decode_mfm_track(bs, false);
  std::cerr.rdbuf(old);
  std::cerr.clear();
  return s;
}

static bool same(const Track::Sector& a, const Track::Sector& b) {
  return a.address == b.address && a.data == b.data && a.crc[0] == b.crc[0] && a.crc[1] == b.crc[1];
}

static void emit_full(const Sectors& s) {
  w32((uint32_t)s.size());
  for (const auto& x : s) {
    w8(x.address.cylinder); w8(x.address.head); w8(x.address.record);
    w32((uint32_t)x.data.size());
    outbuf.append((const char*)x.data.data(), x.data.size());
    w8(x.crc[0]); w8(x.crc[1]);
  }
}

// compact: per sector [c][h][r][u8 flag]; flag 0 = identical to the pristine sector with the same address
static void emit_compact(const Sectors& s, const Sectors& pristine) {
  w32((uint32_t)s.size());
  for (const auto& x : s) {
    w8(x.address.cylinder); w8(x.address.head); w8(x.address.record);
    bool found = false;
    for (const auto& p : pristine) if (same(p, x)) { found = true; break; }
    if (found) { w8(0); continue; }
    w8(1);
    w32((uint32_t)x.data.size());
    outbuf.append((const char*)x.data.data(), x.data.size());
    w8(x.crc[0]); w8(x.crc[1]);
  }
}

static inline bool getbit(const std::vector<Track::byte>& d, size_t i) { return d[i >> 3] & (1u << (i & 7)); }
static inline void setbit(std::vector<Track::byte>& d, size_t i, bool v) {
  if (v) d[i >> 3] |= (Track::byte)(1u << (i & 7)); else d[i >> 3] &= (Track::byte)~(1u << (i & 7));
}

struct DummyDrive : public DFS::AbstractDrive {
  int img, surf;
  DummyDrive(int i, int s) : img(i), surf(s) {}
  std::optional<DFS::SectorBuffer> read_block(unsigned long) override { return std::nullopt; }
  DFS::Geometry geometry() const override { return DFS::Geometry(80, 1, 10, DFS::Encoding::FM); }
  std::string description() const override { return std::to_string(img) + "." + std::to_string(surf); }
};

int main() {
  prctl(PR_SET_PDEATHSIG, SIGKILL);   /* die with the harness process that started us */
  resfd = dup(1);
  { int nul = open("/dev/null", O_WRONLY); dup2(nul, 1); close(nul); }
  for (;;) {
    unsigned char op;
    if (!rd(&op, 1)) break;
    if (op == 'D' || op == 'W' || op == 'X') {
      char enc = (char)r8();
      uint8_t kind = 0; uint32_t param = 0;
      uint32_t lo = 0, hi = 0xFFFFFFFFu;
      if (op == 'W') { kind = r8(); param = r32(); lo = r32(); hi = r32(); }
      uint32_t nbits = r32();
      std::vector<Track::byte> data((nbits + 7) / 8 + 2, 0);
      if (nbits && !rd(data.data(), (nbits + 7) / 8)) return 74;
      Sectors pristine = decode(enc, data, nbits);
      if (op == 'D') { emit_full(pristine); flush_out(); continue; }
      emit_full(pristine);
      if (op == 'X') {
        uint32_t np = r32();
        std::vector<uint32_t> pos(np);
        for (auto& p : pos) p = r32();
        for (uint32_t a = 0; a < np; ++a)
          for (uint32_t b = a + 1; b < np; ++b) {
            std::vector<Track::byte> d(data);
            setbit(d, pos[a], !getbit(d, pos[a]));
            setbit(d, pos[b], !getbit(d, pos[b]));
            emit_compact(decode(enc, d, nbits), pristine);
            if (outbuf.size() > (1u << 20)) flush_out();
          }
        flush_out();
        continue;
      }
      if (kind == 1) {
        for (uint32_t i = lo; i < nbits && i < hi; ++i) {
          setbit(data, i, !getbit(data, i));
          emit_compact(decode(enc, data, nbits), pristine);
          setbit(data, i, !getbit(data, i));
          if (outbuf.size() > (1u << 20)) flush_out();
        }
      } else if (kind == 2 || kind == 3 || kind == 4) {
        for (uint32_t i = lo; i < nbits && i < hi; i += (param ? param : 1)) {
          std::vector<Track::byte> d((nbits + 7) / 8 + 2, 0);
          uint32_t o = 0;
          for (uint32_t j = 0; j < nbits; ++j) {
            if (j == i) {
              if (kind == 2) continue;                 // delete
              setbit(d, o++, kind == 4);                // insert
            }
            setbit(d, o++, getbit(data, j));
          }
          emit_compact(decode(enc, d, o), pristine);
          if (outbuf.size() > (1u << 20)) flush_out();
        }
      } else if (kind == 5) {
        for (uint32_t b = lo; b * 8 < nbits && b < hi; ++b) {
          std::vector<Track::byte> d(data);
          for (uint32_t k = 0; k < param && b + k < d.size(); ++k) d[b + k] = 0;
          emit_compact(decode(enc, d, nbits), pristine);
          if (outbuf.size() > (1u << 20)) flush_out();
        }
      } else if (kind == 6) {
        for (uint32_t i = lo; i <= nbits && i < hi; i += (param ? param : 1)) {
          emit_compact(decode(enc, data, i), pristine);
          if (outbuf.size() > (1u << 20)) flush_out();
        }
      }
      flush_out();
    } else if (op == 'A') {
      DFS::VolumeSelector cv = rvol();
      char dir = (char)r8();
      std::string pat = rstr();
      DFS::DFSContext ctx(dir, cv);
      std::string err;
      std::unique_ptr<DFS::AFSPMatcher> m = DFS::AFSPMatcher::make_unique(ctx, pat, &err);
      uint32_t n = r32();
      w8(m ? 1 : 0);
      wstr(err);
      if (m) wvol(m->get_volume()); else wvol(cv);
      for (uint32_t i = 0; i < n; ++i) {
        DFS::VolumeSelector v = rvol();
        char d = (char)r8();
        std::string name = rstr();
        w8(m ? (m->matches(v, d, name) ? 1 : 0) : 2);
      }
      flush_out();
    } else if (op == 'P') {
      DFS::VolumeSelector cv = rvol();
      char dir = (char)r8();
      std::string name = rstr();
      DFS::DFSContext ctx(dir, cv);
      DFS::ParsedFileName p;
      std::string err;
      bool ok = DFS::parse_filename(ctx, name, &p, err);
      w8(ok ? 1 : 0);
      wvol(p.vol);
      w8((uint8_t)p.dir);
      wstr(p.name);
      wstr(err);
      flush_out();
    } else if (op == 'L') {
      uint32_t steps = r32();
      DFS::StorageConfiguration storage;
      std::vector<std::unique_ptr<DummyDrive>> keep;
      for (uint32_t s = 0; s < steps; ++s) {
        uint32_t nsurf = r32();
        uint8_t policy = r8();
        uint32_t mask = r32();
        std::vector<std::optional<DFS::DriveConfig>> drives;
        for (uint32_t k = 0; k < nsurf; ++k) {
          keep.push_back(std::make_unique<DummyDrive>((int)s, (int)k));
          bool formatted = (k < 32) ? ((mask >> k) & 1u) : true;
          std::optional<DFS::Format> fmt;
          if (formatted) fmt = DFS::Format::DFS;
          drives.emplace_back(DFS::DriveConfig(fmt, keep.back().get()));
        }
        bool ok = false;
        try {
          ok = storage.connect_drives(drives, policy == 1 ? DFS::DriveAllocation::FIRST : DFS::DriveAllocation::PHYSICAL);
        } catch (std::exception& e) {
          ok = false;
        }
        w8(ok ? 1 : 0);
        auto occ = storage.get_all_occupied_drive_numbers();
        w32((uint32_t)occ.size());
        for (auto d : occ) {
          std::ostringstream ss; ss << d;
          w32((uint32_t)std::stoul(ss.str()));
          DFS::AbstractDrive* p = 0;
          std::string err;
          std::string desc;
          auto it = storage.drives_.find(d);
          if (it != storage.drives_.end() && it->second) desc = it->second->drive()->description();
          unsigned img = 0, surf = 0;
          sscanf(desc.c_str(), "%u.%u", &img, &surf);
          w32(img); w32(surf);
          bool sel = storage.select_drive(d, &p, err);
          w8(sel ? 1 : 0);
        }
        flush_out();
      }
    } else {
      return 75;
    }
  }
  return 0;
}
