/* runner: run a command under a wall-clock limit, optional RLIMIT_FSIZE (SIGXFSZ ignored) and
 * RLIMIT_AS, and report how it ended on fd 3 as one line:
 *   exit=<n|-1> sig=<n|0> timeout=<0|1> maxrss_kb=<n> wall_ms=<n>
 * usage: runner <timeout_ms> <fsize_bytes|-1> <as_mb|-1> <sigpipe: d|i> <status-fd> -- cmd args...
 * Environment RUNNER_NOFILE=<n>: RLIMIT_NOFILE for the command (descriptor exhaustion).
 * No property logic lives here. */
#define _GNU_SOURCE
#include <stdio.h>
#include <stdlib.h>
#include <string.h>
#include <unistd.h>
#include <signal.h>
#include <errno.h>
#include <time.h>
#include <sys/wait.h>
#include <sys/resource.h>
#include <sys/time.h>
#include <sys/prctl.h>

static long now_ms(void) {
  struct timespec ts; clock_gettime(CLOCK_MONOTONIC, &ts);
  return ts.tv_sec * 1000L + ts.tv_nsec / 1000000L;
}

int main(int argc, char **argv) {
  if (argc < 8) { fprintf(stderr, "usage\n"); return 99; }
  long tmo = atol(argv[1]);
  prctl(PR_SET_PDEATHSIG, SIGKILL);     /* die with the harness process that started us */
  long long fsz = atoll(argv[2]);
  long asmb = atol(argv[3]);
  char sp = argv[4][0];
  int sfd = atoi(argv[5]);
  char **cmd = argv + 7;
  long t0 = now_ms();
  pid_t pid = fork();
  if (pid < 0) return 98;
  if (pid == 0) {
    close(sfd);
    if (fsz >= 0) {
      struct rlimit rl = { (rlim_t)fsz, (rlim_t)fsz };
      setrlimit(RLIMIT_FSIZE, &rl);
      signal(SIGXFSZ, SIG_IGN);
    }
    if (asmb >= 0) {
      struct rlimit rl = { (rlim_t)asmb << 20, (rlim_t)asmb << 20 };
      setrlimit(RLIMIT_AS, &rl);
    }
    if (getenv("RUNNER_NOFILE")) {
      long nf = atol(getenv("RUNNER_NOFILE"));
      struct rlimit rl = { (rlim_t)nf, (rlim_t)nf };
      setrlimit(RLIMIT_NOFILE, &rl);
    }
    struct rlimit core = {0, 0};
    setrlimit(RLIMIT_CORE, &core);
    signal(SIGPIPE, sp == 'i' ? SIG_IGN : SIG_DFL);
    prctl(PR_SET_PDEATHSIG, SIGKILL);   /* never outlive the runner (a hung target must not survive a killed harness) */
    execv(cmd[0], cmd);
    _exit(127);
  }
  int status = 0, timed_out = 0;
  struct rusage ru; memset(&ru, 0, sizeof ru);
  for (;;) {
    pid_t r = wait4(pid, &status, WNOHANG, &ru);
    if (r == pid) break;
    if (r < 0 && errno != EINTR) break;
    if (now_ms() - t0 > tmo) {
      timed_out = 1;
      kill(pid, SIGKILL);
      wait4(pid, &status, 0, &ru);
      break;
    }
    struct timespec ts = {0, (now_ms() - t0) < 20 ? 200000L : 2000000L};
    nanosleep(&ts, 0);
  }
  long wall = now_ms() - t0;
  char line[256];
  int n = snprintf(line, sizeof line, "exit=%d sig=%d timeout=%d maxrss_kb=%ld wall_ms=%ld\n",
                   WIFEXITED(status) ? WEXITSTATUS(status) : -1,
                   WIFSIGNALED(status) ? WTERMSIG(status) : 0, timed_out, ru.ru_maxrss, wall);
  if (write(sfd, line, n) < 0) return 97;
  return 0;
}
