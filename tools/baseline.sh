#!/bin/sh
# Build /repo (guard off: no hooks exist) the way the pinned baseline does and run its own test suite.
set -e
cmake -G Ninja -S /repo -B /repo/_build -DCMAKE_BUILD_TYPE=RelWithDebInfo >/dev/null
cmake --build /repo/_build >/dev/null
ctest --test-dir /repo/_build -j8 --timeout 900 2>&1 | tail -8
