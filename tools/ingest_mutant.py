#!/usr/bin/env python3
"""ingest_mutant.py <Cnn> <src MUTANT dir> <seed id> [extra props]: confirm with try_mutant, then store under seeded/<id>/"""
import sys, os, json, subprocess, shutil
V = os.path.dirname(os.path.dirname(os.path.abspath(__file__)))
prop, src, sid = sys.argv[1], sys.argv[2], sys.argv[3]
extra = sys.argv[4:] 
props = ','.join([prop] + extra)
r = subprocess.run(['python3', os.path.join(V, 'tools', 'try_mutant.py'), sid, os.path.join(src, 'patch.diff'), '--demo', os.path.join(src, 'demo.sh'),
                    '--props', props], stdout=subprocess.PIPE, stderr=subprocess.STDOUT, text=True)
print(r.stdout[-6000:])
try:
    res = json.loads(r.stdout[r.stdout.index('{'):])
except Exception:
    sys.exit(2)
ok = res.get('applies') and res.get('tests_pass') and res.get('demo_clean_exit') == 0 and res.get('demo_mutant_exit') not in (0, None)
print('CONFIRMED' if ok else 'NOT CONFIRMED')
if ok:
    dst = os.path.join(V, 'seeded', sid)
    shutil.rmtree(dst, ignore_errors=True)
    shutil.copytree(src, dst, ignore=shutil.ignore_patterns('__pycache__', '*.pyc', 'out', 'work*', 'tmp*'))
    meta = {}
    try:
        meta = json.load(open(os.path.join(src, 'meta.json')))
    except Exception:
        pass
    meta['confirmed_here'] = {'repo_tests_pass_with_change': True, 'demo_exit_clean': res['demo_clean_exit'], 'demo_exit_with_change': res['demo_mutant_exit'],
                              'checks_run': {p: {'exit': c['exit'], 'violation_lines': c['lines'][:6]} for p, c in res['checks'].items()}}
    meta['breaks_property'] = prop
    json.dump(meta, open(os.path.join(dst, 'meta.json'), 'w'), indent=1)
