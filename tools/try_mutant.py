#!/usr/bin/env python3
"""Confirm a seeded change and run checks against it WITHOUT touching /repo:
   try_mutant.py <name> <patch.diff> [--demo demo.sh] [--props C01,C02] [--tier quick] [--skip-tests]
 1. scratch worktree of /repo HEAD under /tmp/mt/<name>, patch applied
 2. the repository's own test suite must still pass there
 3. demo (if given) must exit 0 on the clean tree (a second worktree) and non-zero with the patch
 4. each listed check runs with VERIF_REPO pointing at the patched worktree; reports VIOLATION lines
 5. everything scratch is removed."""
import sys, os, subprocess, shutil, argparse, hashlib, json, glob

V = os.path.dirname(os.path.dirname(os.path.abspath(__file__)))


def sh(cmd, **kw):
    return subprocess.run(cmd, shell=True, stdout=subprocess.PIPE, stderr=subprocess.STDOUT, text=True, **kw)


def main():
    ap = argparse.ArgumentParser()
    ap.add_argument('name')
    ap.add_argument('patch')
    ap.add_argument('--demo')
    ap.add_argument('--props', default='')
    ap.add_argument('--tier', default='quick')
    ap.add_argument('--skip-tests', action='store_true')
    ap.add_argument('--keep', action='store_true')
    a = ap.parse_args()
    wt = '/tmp/mt/' + a.name
    clean = '/tmp/mt/' + a.name + '.clean'
    os.makedirs('/tmp/mt', exist_ok=True)
    for d in (wt, clean):
        sh('git -C /repo worktree remove --force %s' % d)
        shutil.rmtree(d, ignore_errors=True)
    out = {'name': a.name}
    try:
        r = sh('git -C /repo worktree add -q --detach %s HEAD' % wt)
        assert r.returncode == 0, r.stdout
        r = sh('git -C %s apply --whitespace=nowarn %s' % (wt, os.path.abspath(a.patch)))
        out['applies'] = r.returncode == 0
        if r.returncode != 0:
            out['apply_error'] = r.stdout[-500:]
            print(json.dumps(out, indent=1))
            return 1
        if not a.skip_tests:
            r = sh('cmake -G Ninja -S %s -B %s/_build -DCMAKE_BUILD_TYPE=RelWithDebInfo >/dev/null && cmake --build %s/_build 2>&1 | tail -3 && '
                   'ctest --test-dir %s/_build -j8 --timeout 600 2>&1 | grep -E "tests passed|tests failed|Failed|\\*\\*\\*"' % (wt, wt, wt, wt))
            out['tests_pass'] = '100% tests passed' in r.stdout
            out['tests_tail'] = r.stdout[-300:]
        if a.demo:
            sh('git -C /repo worktree add -q --detach %s HEAD' % clean)
            sh('cmake -G Ninja -S %s -B %s/_build -DCMAKE_BUILD_TYPE=RelWithDebInfo >/dev/null && cmake --build %s/_build >/dev/null 2>&1' % (clean, clean, clean))
            if a.skip_tests:
                sh('cmake -G Ninja -S %s -B %s/_build -DCMAKE_BUILD_TYPE=RelWithDebInfo >/dev/null && cmake --build %s/_build >/dev/null 2>&1' % (wt, wt, wt))
            dd = os.path.dirname(os.path.abspath(a.demo))
            rc = sh('cd %s && timeout 600 sh %s %s/_build' % (dd, os.path.abspath(a.demo), clean))
            rm = sh('cd %s && timeout 600 sh %s %s/_build' % (dd, os.path.abspath(a.demo), wt))
            out['demo_clean_exit'] = rc.returncode
            out['demo_mutant_exit'] = rm.returncode
            out['demo_mutant_tail'] = rm.stdout[-300:]
        env = dict(os.environ)
        env['VERIF_REPO'] = wt
        out['checks'] = {}
        for p in [x for x in a.props.split(',') if x]:
            r = subprocess.run(['python3', os.path.join(V, 'run_check.py'), p, '--tier', a.tier], env=env, stdout=subprocess.PIPE,
                               stderr=subprocess.STDOUT, text=True, cwd='/tmp/mt')
            viol = [l for l in r.stdout.split('\n') if l.startswith('VIOLATION') or 'signature:' in l or l.startswith('BUILD-FAILED') or 'HARNESS' in l]
            out['checks'][p] = {'exit': r.returncode, 'lines': viol[:12], 'summary': [l for l in r.stdout.split('\n') if l.startswith(p + ' ')][-1:]}
        print(json.dumps(out, indent=1))
    finally:
        if not a.keep:
            tag = hashlib.sha1(wt.encode()).hexdigest()[:8]
            for d in glob.glob(os.path.join(V, 'build', '*-' + tag)):
                shutil.rmtree(d, ignore_errors=True)
            for d in (wt, clean):
                sh('git -C /repo worktree remove --force %s' % d)
                shutil.rmtree(d, ignore_errors=True)
    return 0


if __name__ == '__main__':
    sys.exit(main())
