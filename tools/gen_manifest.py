#!/usr/bin/env python3
"""Regenerate MANIFEST.json from the table below (single source of truth for check metadata)."""
import json, os
V = os.path.dirname(os.path.dirname(os.path.abspath(__file__)))
props = [json.loads(l) for l in open(os.path.join(V, 'properties.jsonl'))]

CHECKS = {
    'C01': ('exploration', '4 C01',
            'Bounded-exhaustive exploration: every legal start sector x boundary lengths per variant, all layouts of <=3 '
            'files on a tiny disc, every entry count / Watford split, every name spelling, Opus volume sets, every '
            'geometry x sector-dump container; each file read back through the real binary and compared with the '
            'generating description.',
            'Reference model lib/disc.py+render.py; plain build; one process per command.',
            'bounded-exhaustive enumeration of disc descriptions, real binary vs reference model'),
    'C02': ('exploration', '4 C02',
            'Bounded-exhaustive exploration of catalogue metadata: all 256 mixed-byte values, all 16-bit low words per '
            'field (thorough), every legal name/directory character per position, titles/cycle/option x every --ui, all '
            'small catalogue orders x --dir, every entry count and Watford split, all Opus volumes; info/cat/show-titles/'
            '.inf parsed back and compared field by field.',
            'Tolerant parsers in lib/render.py; XMODEM CRC reference implemented bitwise.',
            'bounded-exhaustive enumeration of catalogue field domains, real binary vs reference model'),
    'C03': ('exploration', '4 C03',
            'Bounded-exhaustive exploration of program space: all single bytes and all ordered byte pairs in and out of '
            'quotes, all triples over a 20-class alphabet, all 65536 line-number references (all 2^24 operand triples '
            'thorough), line numbers x lengths, all loop-indent sequences of <=4/5 lines, x 10 dialect names x LISTO 0..7 '
            'x file/stdin; byte-exact comparison with a reference detokeniser transcribed from doc/bbcbasic.5.',
            'Reference lib/basic_ref.py cross-validated against golden-token-map.txt and the repository golden listings; '
            'bytes where the two anchors disagree are outside the domain.',
            'bounded-exhaustive enumeration of tokenised programs, real binary vs reference detokeniser'),
    'C08': ('exploration', '4 C08',
            'All byte strings up to length 2 (quick) / 3 (thorough) x 6 dialects, all strings <=4/5 over a 16-class '
            'alphabet, every prefix and single-byte substitution of seed programs, decoded in-process by the real decoder '
            'under ASan+UBSan and MSan; full command-line matrix on ASan / assertion-enabled / MSan binaries.',
            'Memory safety as far as the sanitizers observe; in-process executor mc/mcb.c contains no oracle.',
            'bounded-exhaustive input enumeration under sanitizers (in-process executor + real CLI)'),
    'C09': ('exploration', '4 C09',
            'All programs of <=3 lines over 6 line shapes in both framings: every proper non-empty prefix in a fresh '
            'process, every single-byte corruption of every framing byte classified by a reference framing parser, every '
            'unassigned token per dialect, and all sequences of 1..4 input files in one process (history) compared with '
            'each file alone and with the real CLI; every prefix also through the real binary as named file, stdin from a file and stdin from a pipe.',
            'Reference framing parser lib/basic_ref.parse_program from doc/bbcbasic.5; cases the documentation leaves open '
            'are outside the domain.',
            'bounded-exhaustive enumeration of inputs x file histories against a reference parser'),
    'C07': ('exploration', '4 C07',
            'Structure-aware exhaustive enumeration on the real dfs binary (ASan+UBSan+libstdc++ assertions, with and '
            'without NDEBUG; plain build for memory use): every truncation length of the structural regions of a valid '
            'file of every extension (raw and .gz, and the gzip stream itself), every structural byte x boundary values '
            '(all 256 values for count/size/offset fields, extreme 16/32-bit sizes), all files of length <=1 (<=2 '
            'thorough), every valid file under every other extension, file-name shapes and the command x argument x '
            'option matrix.',
            'Exhaustive over the stated structural neighbourhoods, not over all byte strings; memory safety as far as '
            'the sanitizers observe; hangs re-run alone before being reported.',
            'bounded-exhaustive structural input enumeration on sanitizer builds of the real binary'),
    'C11': ('fault_enumeration', '4 C11',
            'Every command of both tools x every offset N (quick: boundary-dense subset; thorough: every N) at which a '
            'regular-file stdout starts refusing writes (RLIMIT_FSIZE), every per-file limit for files created by '
            'extract-files/extract-unused (large files and discs of tiny files whose .inf sidecars are the largest outputs), plus /dev/full, closed pipes (SIGPIPE ignored/default) and bad destinations; '
            'oracle: fewer bytes accepted than the fault-free output implies non-zero exit and a diagnostic.',
            'Kernel RLIMIT_FSIZE semantics; pipe failures at arbitrary offsets are not injected (only offset 0).',
            'exhaustive fault-point enumeration (write refusal at every output offset) on the real binaries'),
    'C12': ('exploration', '4 C12',
            'Every hostile catalogue name (all strings <=3 over {/ . - a 0x01 ~}, hand-picked 7-character names) x every '
            'directory byte 0x01-0x7F x --dir x destination spelling for extract-files/extract-unused, and every command '
            '(including failing ones) on valid images of every extension, plain and .gz; full tree snapshot of a sandbox '
            'before/after each run.',
            'Snapshot covers the sandbox directory only (image, destination, sibling, canary); libc tmpfile() is outside it.',
            'bounded-exhaustive enumeration of hostile catalogues with before/after file-tree differencing'),
    'C10': ('exploration', '4 C10',
            'X vs X.gz through every command for every container x geometry x catalogue total x variant, gzip levels 0-9, '
            '1-3 members cut at every 256-byte boundary, compressed size swept over every residue mod 512 (FNAME field), '
            'decompressed sizes around the 1024-byte output buffer; fault enumeration over every truncation length and '
            'every single-bit flip of a small .gz against a reference inflater.',
            'Python zlib is the reference inflater; a valid member followed by extra bytes only has to not crash.',
            'bounded-exhaustive differential exploration (X vs gzip(X)) plus exhaustive single-fault enumeration of the stream'),
    'C06': ('fault_enumeration', '4 C06',
            'Real FM/MFM track decoders run in-process under ASan on valid tracks with distinct per-sector data subjected to '
            'every single bit flip, deletion, insertion, zeroed run and truncation point (3-sector tracks; full 10/18-sector '
            'tracks for flips and byte-step slips), pairs of flips over the field-structure bits, and at image level every '
            'subset (thorough; <=2 quick) of damaged sectors of a small HFE(FM/MFM) / HxC-MFM disc read back sector by '
            'sector through dump-sector.',
            'A sector that passes CRC but is no recorded data is a CRC collision and is only counted; encoders validated '
            'by the pristine decode in every case.',
            'exhaustive single-fault (and bounded double-fault) enumeration over track bit-streams, in-process decoder + real binary'),
    'C05': ('exploration', '4 C05',
            'The same disc recorded as a sector dump and as HFE v1 / HFE v3 / HxC-MFM flux images by independent encoders: '
            'encodings x containers x 1/2 sides x track counts x sectors/track, all n! physical sector orders for n<=5 and all '
            'rotations x coprime interleave steps for 10/16/18, a 4^4 grid of gap1/gap2/gap3/sync lengths, padded/unpadded '
            'tracks, and one HFEv3 opcode (NOP/SETINDEX/SETBITRATE) at every stream byte position; every command must give '
            'identical stdout/exit/extracted files on both.',
            'SKIPBITS generated per the HxC reading stated in DESIGN.md section 8 (no specification offline); also one-side-unformatted images and '
            'writer-chosen file layouts (track list position, record flush with the end of the track); encoders lib/flux.py.',
            'bounded-exhaustive differential exploration (flux image vs sector dump of the same disc)'),
    'C04': ('exploration', '4 C04',
            'Image files whose every sector carries its own file offset: container (ssd/sdd one- and two-sided, dsd/ddd, mmb) x '
            'geometry x catalogue variant x every surface, every sector read back through a whole-surface file read and '
            'dump-sector (boundary tracks quick / every sector thorough), file cut at track boundaries, dump-sector argument '
            'boundaries, every MMB slot (sparse 104 MB archive) and all 256 status bytes on three slots.',
            'Non-interleaved 16-sector images are undecidable from their bytes (also valid 18-sector images) and only their '
            'geometry-independent LBA mapping is checked.',
            'bounded-exhaustive enumeration of (container, geometry, surface, track, sector) with self-describing sectors'),
    'C14': ('exploration', '4 C14',
            'All non-overlapping layouts of <=3/4 files (sector counts 0,1,2; lengths 0,1,256,257) on tiny Acorn, Watford '
            '(every split over the two catalogue halves) and two-volume Opus discs, boundary layouts on totals 3..1023 over '
            'every geometry, full 31/62-entry catalogues; free / space / sector-map / extract-unused compared with quantities '
            'computed from the layout alone and with each other.',
            'Where the property is silent about zero-length files (free high-water mark, gap splitting) both readings are accepted.',
            'bounded-exhaustive enumeration of disc layouts against a reference allocation model'),
    'C15': ('exploration', '4 C15',
            'All wildcard strings of length <=2/3 over a 23-character alphabet containing every regex metacharacter, plus all '
            'qualified shapes [:drive.][dir.]body, x all names of length <=2 x 4 directories x 3 contexts through the real '
            'AFSPMatcher in-process (ASan); info PATTERN and type SPELLING (all spellings x case variants x --dir, Opus volume '
            'prefixes) through the real binary; oracle = reference matcher from doc/dfs.1.',
            'Strings outside the documented grammar only have to not crash; catalogue names never contain . : # *.',
            'bounded-exhaustive pattern x name matrix against a reference matcher'),
    'C16': ('model_checking', '4 C16',
            'Explicit-state exploration of the real transition function StorageConfiguration::connect_drives (in-process, '
            'ASan): every attach history over surface counts {1,2,3,5} x {PHYSICAL, FIRST} to depth 5 (quick) / 6 (thorough) '
            'plus 511-surface images, invariants I1-I4 evaluated in every state and every state compared with a reference '
            'allocation model; TLC model-checks spec/DriveAlloc.tla (same invariants) and every reachable model state is '
            'replayed against the implementation; addressing of every drive number is checked through the real binary on real '
            'image files (ssd, dsd, two-sided ssd, hfe, mfm, mmb).',
            'Dummy drives stand for surfaces in the in-process executor; TLC bound 4/5 images.',
            'explicit-state model checking of the real transition function + TLC model with full conformance replay'),
    'C17': ('exploration', '4 C17',
            'Regions (every Opus volume A-H of discs with 2..8 volumes of 1..3 tracks, both sides of interleaved and '
            'non-interleaved two-sided images, MMB slots with occupied neighbours) are filled with a byte naming the region; '
            'one catalogue entry ends at B-2..B+2 by every start/length split with length mod 256 in {0,1,255}; type, dump, '
            'extract-files, extract-unused and sector-map must never output another region\'s byte and a crossing extent must '
            'be reported.',
            'Only the boundary window is enumerated (the interior is C01/C04).',
            'bounded-exhaustive boundary enumeration with region-tagged image content'),
    'C13': ('exploration', '4 C13',
            'Every variant x geometry x container (plain and .gz) x catalogue total; a Watford disc with a file at every start '
            'sector; Acorn discs whose sector-2 file carries every subset of the 8 Watford marker bytes; Acorn discs whose '
            'file covers sector 16 with every incomplete (and the complete) Opus table; catalogue-like bodies at the side-2 '
            'offsets the prober consults; each identified format/geometry compared with a reference recogniser written from '
            'the property, and differentially against the same disc with other file bodies.',
            '16-sector geometries excluded as undecidable; identification observed through --verbose/--show-config.',
            'bounded-exhaustive enumeration of marker-imitating discs against a reference recogniser, plus differential runs'),
    'C18': ('exploration', '4 C18',
            'Differential on the ASan build: every image (valid of every container incl. two-sided/v3 flux and .gz, plus a '
            'hostile set) x every command x --verbose / --show-config before and after --file x every --ui spelling; cat on '
            'a pseudo-terminal for 14 COLUMNS values x --ui; every baseline run executed twice; cat compared by parsed data.',
            'pty via pty.openpty(); presentation may differ only for cat.',
            'bounded-exhaustive differential exploration over option sets'),
    'C19': ('exploration', '4 C19',
            'Differential between build configurations of the same sources (gcc -O2 with and without NDEBUG): the full '
            'bbcbasic_to_text command-line matrix, every image x command of C18, the dfs command-line matrix and the '
            'structural mutations of C07, all inputs of length <=2 and all byte pairs as line bodies in-process; plus the '
            'NDEBUG builds under MemorySanitizer (C tool) and valgrind (dfs) for initialisation hidden in assert().',
            'Equality required only when the assertion build does not stop on a failed assertion.',
            'bounded-exhaustive differential exploration between assertion-enabled and NDEBUG builds'),
}

NA_REASON = 'check not built yet (work in progress; see DESIGN.md section 4)'

m = {
    'version': 1,
    'setup_cmd': 'python3 /verif/run_check.py --setup',
    'hooks': {
        'guard': 'BEEBTOOLS_VERIF',
        'enable': 'no source hooks are used: checks compile /repo\'s sources unmodified into /verif/build/<variant>/ '
                  '(in-process executors additionally use -fno-access-control and -Dmain=dfs_main_real)',
        'baseline_off_cmd': '/verif/tools/baseline.sh',
        'source_commits': [],
        'add_only': True,
    },
    'engines': [
        {'name': 'run_check', 'path': '/verif/run_check.py', 'serves_properties': sorted(CHECKS),
         'kind_free_text': 'bounded-exhaustive explorer: enumerates a finite case space per property, runs each case on '
                           'the real code built from /repo, compares with an independent reference model'}],
    'checks': [],
    'not_applicable': [],
    'notes': 'See DESIGN.md. Known findings: known_findings.json. Seeded mutants: seeded/.',
}
for p in props:
    pid = p['id']
    if pid in CHECKS:
        cat, ref, text, note, tech = CHECKS[pid]
        m['checks'].append({
            'property_id': pid,
            'quick_cmd': 'python3 /verif/run_check.py %s --tier quick' % pid,
            'thorough_cmd': 'python3 /verif/run_check.py %s --tier thorough' % pid,
            'evidence_file': '/verif/evidence/%s.json' % pid,
            'replay_cmd_template': 'python3 /verif/run_check.py %s --replay {path}' % pid,
            'engine': 'run_check',
            'level_claimed': {'category': cat, 'text': text, 'design_ref': 'DESIGN.md section ' + ref},
            'level_note': note,
            'technique': tech,
        })
    else:
        m['not_applicable'].append({'property_id': pid, 'reason': NA_REASON})
json.dump(m, open(os.path.join(V, 'MANIFEST.json'), 'w'), indent=1)
print('checks:', len(m['checks']), 'not_applicable:', len(m['not_applicable']))
