#!/usr/bin/env python3
"""Entry point:  run_check.py Cnn --tier quick|thorough   |  run_check.py Cnn --replay file
                 run_check.py --setup
Exit 0: property held on everything explored (known findings are printed as KNOWN-FINDING lines).
Exit 1: a violation not listed in known_findings.json (VIOLATION line printed).
Exit 2: the tree under test failed to build / harness error (never a VIOLATION line)."""
import sys, os, argparse, importlib, subprocess, json, traceback

VERIF = os.path.dirname(os.path.abspath(__file__))
sys.path.insert(0, VERIF)
from lib import build


def build_runner():
    out = os.path.join(VERIF, 'build', 'runner')
    src = os.path.join(VERIF, 'mc', 'runner.c')
    os.makedirs(os.path.dirname(out), exist_ok=True)
    if not os.path.exists(out) or os.path.getmtime(out) < os.path.getmtime(src):
        subprocess.check_call(['gcc', '-O2', '-o', out + '.tmp%d' % os.getpid(), src])
        os.replace(out + '.tmp%d' % os.getpid(), out)


def main():
    ap = argparse.ArgumentParser()
    ap.add_argument('prop', nargs='?')
    ap.add_argument('--tier', default=os.environ.get('VERIF_TIER', 'quick'), choices=['quick', 'thorough'])
    ap.add_argument('--replay')
    ap.add_argument('--setup', action='store_true')
    a = ap.parse_args()
    try:
        build_runner()
        if a.setup:
            for v in build.VARIANTS:
                build.build(v)
            print('setup ok')
            return 0
        mod = importlib.import_module('checks.' + a.prop.lower())
        for v in mod.VARIANTS:
            build.build(v)
        seed = int(os.environ.get('VERIF_SEED', '0') or 0)
        if a.replay:
            return mod.replay(json.load(open(a.replay)))
        return mod.main(a.tier, seed)
    except build.BuildFailed as e:
        print('BUILD-FAILED variant=%s' % e)
        return 2
    except Exception:
        traceback.print_exc()
        print('HARNESS-ERROR')
        return 2


if __name__ == '__main__':
    sys.exit(main())
