"""Tolerant parsers for dfs command output.  They extract the *data* the properties talk about and
ignore layout the properties do not state.  A parser returns None / raises ParseError when the
output does not have the documented shape at all."""
import re


class ParseError(Exception):
    pass


# ---------------------------------------------------------------- info
# "$.PANEL    L FF5FBD FF5FBD 001700 179"   name may contain any non-space printable characters
_INFO = re.compile(rb'^(.)\.(\S{0,7})\s+(L\s+)?([0-9A-F]{6,8}) ([0-9A-F]{6,8}) ([0-9A-F]{6}) ([0-9A-F]{3})$')


def parse_info(out):
    rows = []
    for line in out.split(b'\n'):
        if not line:
            continue
        m = _INFO.match(line)
        if not m:
            raise ParseError('info line %r' % line)
        rows.append({'dir': m.group(1), 'name': m.group(2), 'locked': bool(m.group(3)),
                     'load': int(m.group(4), 16), 'exec': int(m.group(5), 16),
                     'length': int(m.group(6), 16), 'start': int(m.group(7), 16)})
    return rows


def sign_extend(a):
    return a | 0xFF0000 if a & 0x20000 else a


# ---------------------------------------------------------------- dump
_DUMP = re.compile(rb'^(\d{6})((?: (?:[0-9A-F]{2}|\*\*)){8}) (.{8})$', re.S)


def parse_dump(out):
    """Returns (bytes denoted by hex cells, list of (offset, ascii column)) ."""
    data = bytearray()
    rows = []
    lines = out.split(b'\n')
    if lines and lines[-1] == b'':
        lines.pop()
    # the ASCII column may itself contain '\n'?  No: 0x0A is not graphic, shown as '.'
    ended = False
    for ln in lines:
        m = _DUMP.match(ln)
        if not m:
            raise ParseError('dump line %r' % ln)
        if ended:
            raise ParseError('row after a short row')
        off = int(m.group(1))
        if off != len(data):
            raise ParseError('offset %d but %d bytes so far' % (off, len(data)))
        cells = m.group(2).split()
        asc = m.group(3)
        for i, c in enumerate(cells):
            if c == b'**':
                ended = True
            else:
                if ended:
                    raise ParseError('hex after **')
                data.append(int(c, 16))
        rows.append((off, asc))
    return bytes(data), rows


def expected_ascii(chunk):
    s = bytearray()
    for b in chunk:
        s.append(b if (b == 0x20 or 0x21 <= b <= 0x7E) else 0x2E)
    while len(s) < 8:
        s.append(0x2E)
    return bytes(s)


# ---------------------------------------------------------------- list
def expected_list(body):
    """Numbered lines: 4-wide right-aligned number, space, text; CR ends a line."""
    out = bytearray()
    n = 1
    start = True
    for b in body:
        if start:
            out += b'%4d ' % n
            n += 1
            start = False
        if b == 0x0D:
            out += b'\n'
            start = True
        else:
            out.append(b)
    return bytes(out)


def parse_list(out):
    """Tolerant: returns list of (number, text) for bodies without LF/CR inside lines."""
    rows = []
    for ln in out.split(b'\n'):
        m = re.match(rb'^\s*(\d+) (.*)$', ln, re.S)
        if not m:
            if ln == b'':
                continue
            raise ParseError('list line %r' % ln)
        rows.append((int(m.group(1)), m.group(2)))
    return rows


# ---------------------------------------------------------------- free
_FREE = re.compile(rb'^(\d+) Files ([0-9A-F]+) Sectors\s+([\d,]+) Bytes (Free|Used)$')


def parse_free(out):
    r = {}
    for ln in out.split(b'\n'):
        if not ln:
            continue
        m = _FREE.match(ln)
        if not m:
            raise ParseError('free line %r' % ln)
        r[m.group(4).decode()] = {'files': int(m.group(1)), 'sectors': int(m.group(2), 16),
                                  'bytes': int(m.group(3).replace(b',', b''))}
    if set(r) != {'Free', 'Used'}:
        raise ParseError('free output %r' % out)
    return r


# ---------------------------------------------------------------- space
def parse_space(out):
    """Returns list of (volume label, [gaps], total) per reported volume."""
    res = []
    lines = out.split(b'\n')
    i = 0
    while i < len(lines):
        m = re.match(rb'^Gap sizes on disc (\S+):$', lines[i])
        if m:
            gaps = [int(x, 16) for x in lines[i + 1].split()]
            if lines[i + 2] != b'':
                raise ParseError('space layout')
            t = re.match(rb'^Total space free = ([0-9A-F]+) sectors$', lines[i + 3])
            if not t:
                raise ParseError('space total %r' % lines[i + 3])
            res.append((m.group(1), gaps, int(t.group(1), 16)))
            i += 4
        else:
            i += 1
    return res


# ---------------------------------------------------------------- sector-map
def parse_sector_map(out):
    """Returns list of owner labels, one per sector, in sector order ('-' = unowned)."""
    lines = out.split(b'\n')
    if len(lines) < 3 or not lines[0].strip().startswith(b'Sector'):
        raise ParseError('sector-map header')
    owners = []
    for ln in lines[2:]:
        if not ln:
            continue
        m = re.match(rb'^(\d{6}): (.*)$', ln, re.S)
        if not m:
            raise ParseError('sector-map line %r' % ln)
        if int(m.group(1)) != len(owners):
            raise ParseError('sector-map numbering %r at %d' % (ln, len(owners)))
        rest = m.group(2)
        # fixed 13-character cells (12-wide label + space); labels are never longer than 12
        for j in range(0, len(rest), 13):
            cell = rest[j:j + 13]
            owners.append(cell.rstrip(b' '))
    return owners


# ---------------------------------------------------------------- cat
_OPTS = {0: b'off', 1: b'LOAD', 2: b'RUN', 3: b'EXEC'}


def parse_cat(out):
    """Returns dict(title, cycle, option, option_desc, density ('single'|'double'), drive, files).
    files = [(dir or None, name, locked)] in printed order; dir None = printed without a directory
    prefix (i.e. in the current directory).  Works on the 20-column cell grid; never looks at
    exact spacing inside a cell."""
    lines = out.split(b'\n')
    try:
        blank = lines.index(b'')
    except ValueError:
        raise ParseError('cat: no blank line after header')
    header = lines[:blank]
    body = lines[blank + 1:]
    h = b'\n'.join(header)
    m = re.search(rb'^ ?(.*) ?\(([0-9A-Fa-f]{2})\)', header[0], re.S)
    if not m:
        raise ParseError('cat: title line %r' % header[0])
    title = m.group(1).rstrip(b' ')
    cycle = int(m.group(2), 16)
    mo = re.search(rb'Option (\d) \((\w+)\)', h)
    if not mo:
        raise ParseError('cat: no Option')
    if re.search(rb'Double density|\bMFM\b', h[len(m.group(0)) - 0:] if False else h.replace(m.group(1), b'', 1)):
        dens = 'double'
    elif re.search(rb'Single density|\bFM\b', h.replace(m.group(1), b'', 1)):
        dens = 'single'
    else:
        raise ParseError('cat: no density')
    md = re.search(rb'Drive (\d+[A-H]?)', h.replace(m.group(1), b'', 1))
    files = []
    for ln in body:
        if re.match(rb'^\d+ files of \d+ on \d+ tracks$', ln) or ln == b'No file':
            continue
        for j in range(0, len(ln), 20):
            cell = ln[j:j + 20]
            toks = cell.split()
            if not toks:
                continue
            if len(toks) > 2 or (len(toks) == 2 and toks[1] != b'L'):
                raise ParseError('cat cell %r' % cell)
            nm = toks[0]
            locked = len(toks) == 2
            if len(nm) >= 3 and nm[1:2] == b'.':
                d, n = nm[0:1], nm[2:]
            else:
                d, n = None, nm
            files.append((d, n, locked))
    return {'title': title, 'cycle': cycle, 'option': int(mo.group(1)), 'option_desc': mo.group(2),
            'density': dens, 'drive': md.group(1) if md else None, 'files': files}


def parse_show_titles(out):
    rows = []
    for ln in out.split(b'\n'):
        if not ln:
            continue
        m = re.match(rb'^(\d+[A-H]?): (.*)$', ln, re.S)
        if not m:
            raise ParseError('show-titles %r' % ln)
        rows.append((m.group(1), m.group(2)))
    return rows


def parse_inf(text):
    """'$.DICE   FF1B00 FF8023 000995 [Locked] CRC=EA69'"""
    t = text.rstrip(b'\n')
    f = t.split()
    if len(f) < 5:
        raise ParseError('inf %r' % text)
    r = {'name': f[0], 'load': int(f[1], 16), 'exec': int(f[2], 16), 'length': int(f[3], 16), 'locked': False}
    rest = f[4:]
    for x in rest:
        if x in (b'Locked', b'L'):
            r['locked'] = True
        elif x.startswith(b'CRC='):
            r['crc'] = int(x[4:], 16)
        else:
            raise ParseError('inf field %r' % x)
    return r


def xmodem_crc(data):
    crc = 0
    for b in data:
        crc ^= b << 8
        for _ in range(8):
            crc = ((crc << 1) ^ 0x1021) & 0xFFFF if crc & 0x8000 else (crc << 1) & 0xFFFF
    return crc
