"""Build the code under test (always from the current working tree of the repo) in several
variants, plus the thin in-process executors under /verif/mc.  One ninja tree per variant.

No reference logic lives here."""
import os, sys, glob, subprocess, fcntl, hashlib

VERIF = os.path.dirname(os.path.dirname(os.path.abspath(__file__)))
REPO = os.environ.get('VERIF_REPO', '/repo')

SAN = ('-fsanitize=address,undefined -fno-sanitize-recover=undefined -fno-omit-frame-pointer '
       '-D_GLIBCXX_ASSERTIONS -D_GLIBCXX_SANITIZE_VECTOR')
VARIANTS = {
    # name: (cc, cxx, cflags (both), ldflags)
    'plain':        ('gcc', 'g++', '-O2 -g -DNDEBUG', ''),
    'plain-assert': ('gcc', 'g++', '-O2 -g', ''),
    'san':          ('clang', 'clang++', '-O1 -g -DNDEBUG ' + SAN, '-fsanitize=address,undefined'),
    'san-assert':   ('clang', 'clang++', '-O1 -g ' + SAN, '-fsanitize=address,undefined'),
    'msan':         ('clang', 'clang++', '-O1 -g -DNDEBUG -fsanitize=memory -fsanitize-memory-track-origins -fno-omit-frame-pointer', '-fsanitize=memory'),
    'msan-assert':  ('clang', 'clang++', '-O1 -g -fsanitize=memory -fsanitize-memory-track-origins -fno-omit-frame-pointer', '-fsanitize=memory'),
}
# msan variants only build the C tool (libstdc++ is not msan-instrumented).
C_ONLY = {'msan', 'msan-assert'}


def bdir(variant):
    tag = '' if REPO == '/repo' else '-' + hashlib.sha1(REPO.encode()).hexdigest()[:8]
    return os.path.join(VERIF, 'build', variant + tag)


def _dfs_sources():
    srcs = sorted(glob.glob(os.path.join(REPO, 'dfs', '*.cc')))
    return srcs


def _gen_ninja(variant, harnesses):
    cc, cxx, flags, ld = VARIANTS[variant]
    out = []
    w = out.append
    w('ninja_required_version = 1.3')
    w('builddir = .')
    w('rule cxx')
    w('  command = %s -std=c++17 %s -DUSE_ZLIB -I%s/dfs $extra -MMD -MF $out.d -c $in -o $out' % (cxx, flags, REPO))
    w('  depfile = $out.d')
    w('  deps = gcc')
    w('rule cc')
    w('  command = %s %s $extra -MMD -MF $out.d -c $in -o $out' % (cc, flags))
    w('  depfile = $out.d')
    w('  deps = gcc')
    w('rule linkxx')
    w('  command = %s %s -o $out $in -lz $libs' % (cxx, ld))
    w('rule linkc')
    w('  command = %s %s -o $out $in $libs' % (cc, ld))
    # --- basic
    bobjs = []
    for s in ['tokens.c', 'lines.c', 'decoder.c']:
        o = 'basic_%s.o' % s[:-2]
        w('build %s: cc %s/basic/%s' % (o, REPO, s))
        bobjs.append(o)
    w('build basic_main.o: cc %s/basic/bbcbasic_to_text.c' % REPO)
    w('build bbcbasic_to_text: linkc basic_main.o %s' % ' '.join(bobjs))
    targets = ['bbcbasic_to_text']
    if os.path.exists(os.path.join(VERIF, 'mc', 'mcb.c')):
        w('build mc_mcb.o: cc %s/mc/mcb.c' % VERIF)
        w('  extra = -I%s/basic' % REPO)
        w('build mcb: linkc mc_mcb.o %s' % ' '.join(bobjs))
        targets.append('mcb')
    if variant not in C_ONLY:
        libobjs = []
        for s in _dfs_sources():
            b = os.path.basename(s)[:-3]
            if b == 'main':
                continue
            o = 'dfs_%s.o' % b
            w('build %s: cxx %s' % (o, s))
            libobjs.append(o)
        w('build dfs_main.o: cxx %s/dfs/main.cc' % REPO)
        w('build dfs: linkxx dfs_main.o %s' % ' '.join(libobjs))
        targets.append('dfs')
        # main.cc with main renamed, for in-process harnesses that want the real option loop
        w('build dfs_main_renamed.o: cxx %s/dfs/main.cc' % REPO)
        w('  extra = -Dmain=dfs_main_real')
        for h in harnesses:
            src = os.path.join(VERIF, 'mc', h + '.cc')
            w('build mc_%s.o: cxx %s' % (h, src))
            w('  extra = -fno-access-control -I%s/mc' % VERIF)
            w('build %s: linkxx mc_%s.o dfs_main_renamed.o %s' % (h, h, ' '.join(libobjs)))
            targets.append(h)
    w('default ' + ' '.join(targets))
    return '\n'.join(out) + '\n'


HARNESSES = ['mcx']


def build(variant, quiet=True):
    """Build (incrementally) and return the build dir.  Raises BuildFailed."""
    d = bdir(variant)
    os.makedirs(d, exist_ok=True)
    lock = open(os.path.join(d, '.lock'), 'w')
    fcntl.flock(lock, fcntl.LOCK_EX)
    try:
        harn = [h for h in HARNESSES if os.path.exists(os.path.join(VERIF, 'mc', h + '.cc'))]
        text = _gen_ninja(variant, harn)
        p = os.path.join(d, 'build.ninja')
        old = open(p).read() if os.path.exists(p) else None
        if old != text:
            open(p, 'w').write(text)
        r = subprocess.run(['ninja', '-C', d, '-j', '16'], stdout=subprocess.PIPE, stderr=subprocess.STDOUT)
        if r.returncode != 0:
            sys.stdout.write(r.stdout.decode(errors='replace')[-6000:])
            raise BuildFailed(variant)
    finally:
        fcntl.flock(lock, fcntl.LOCK_UN)
        lock.close()
    return d


class BuildFailed(Exception):
    pass


def exe(variant, name):
    return os.path.join(bdir(variant), name)


if __name__ == '__main__':
    for v in (sys.argv[1:] or list(VARIANTS)):
        print(v, build(v))
