"""Reference model of BBC BASIC detokenising, transcribed from doc/bbcbasic.5 and
doc/bbcbasic_to_text.1 (NOT from basic/*.c).  A byte whose meaning the man page and the
repository's golden token map (basic/testdata/golden-token-map.txt, the other anchor) disagree
about is *outside the domain*: never generated as well-formed, never demanded to be rejected."""
import os, re

REPO = os.environ.get('VERIF_REPO', '/repo')
INVALID = None          # sentinel: the documentation says this byte is not a token here
DIALECT_NAMES = ['6502', '32000', 'PDP11', 'Z80', '8086', 'ARM', 'Windows', 'SDL', 'MacOSX', 'Mac']
CANON = {'6502': '6502', '32000': '6502', 'PDP11': 'PDP11', 'Z80': 'Z80', '8086': 'Z80', 'ARM': 'ARM',
         'Windows': 'Windows', 'SDL': 'Windows', 'MacOSX': 'Windows', 'Mac': 'Mac'}
BIG_ENDIAN = {'6502', 'PDP11', 'ARM', 'Mac'}
DISTINCT = ['6502', 'PDP11', 'Z80', 'ARM', 'Windows', 'Mac']

_ALL = {
    0x80: 'AND', 0x81: 'DIV', 0x82: 'EOR', 0x83: 'MOD', 0x84: 'OR', 0x85: 'ERROR', 0x86: 'LINE', 0x87: 'OFF',
    0x88: 'STEP', 0x89: 'SPC', 0x8A: 'TAB(', 0x8B: 'ELSE', 0x8C: 'THEN', 0x8E: 'OPENIN', 0x8F: 'PTR', 0x90: 'PAGE',
    0x91: 'TIME', 0x92: 'LOMEM', 0x93: 'HIMEM', 0x94: 'ABS', 0x95: 'ACS', 0x96: 'ADVAL', 0x97: 'ASC', 0x98: 'ASN',
    0x99: 'ATN', 0x9A: 'BGET', 0x9B: 'COS', 0x9C: 'COUNT', 0x9D: 'DEG', 0x9E: 'ERL', 0x9F: 'ERR', 0xA0: 'EVAL',
    0xA1: 'EXP', 0xA2: 'EXT', 0xA3: 'FALSE', 0xA4: 'FN', 0xA5: 'GET', 0xA6: 'INKEY', 0xA7: 'INSTR(', 0xA8: 'INT',
    0xA9: 'LEN', 0xAA: 'LN', 0xAB: 'LOG', 0xAC: 'NOT', 0xAD: 'OPENUP', 0xAE: 'OPENOUT', 0xAF: 'PI', 0xB0: 'POINT(',
    0xB1: 'POS', 0xB2: 'RAD', 0xB3: 'RND', 0xB4: 'SGN', 0xB5: 'SIN', 0xB6: 'SQR', 0xB7: 'TAN', 0xB8: 'TO',
    0xB9: 'TRUE', 0xBA: 'USR', 0xBB: 'VAL', 0xBC: 'VPOS', 0xBD: 'CHR$', 0xBE: 'GET$', 0xBF: 'INKEY$',
    0xC0: 'LEFT$(', 0xC1: 'MID$(', 0xC2: 'RIGHT$(', 0xC3: 'STR$', 0xC4: 'STRING$(', 0xC5: 'EOF',
    0xCF: 'PTR', 0xD0: 'PAGE', 0xD1: 'TIME', 0xD2: 'LOMEM', 0xD3: 'HIMEM', 0xD4: 'SOUND', 0xD5: 'BPUT',
    0xD6: 'CALL', 0xD7: 'CHAIN', 0xD8: 'CLEAR', 0xD9: 'CLOSE', 0xDA: 'CLG', 0xDB: 'CLS', 0xDC: 'DATA', 0xDD: 'DEF',
    0xDE: 'DIM', 0xDF: 'DRAW', 0xE0: 'END', 0xE1: 'ENDPROC', 0xE2: 'ENVELOPE', 0xE3: 'FOR', 0xE4: 'GOSUB',
    0xE5: 'GOTO', 0xE6: 'GCOL', 0xE7: 'IF', 0xE8: 'INPUT', 0xE9: 'LET', 0xEA: 'LOCAL', 0xEB: 'MODE', 0xEC: 'MOVE',
    0xED: 'NEXT', 0xEE: 'ON', 0xEF: 'VDU', 0xF0: 'PLOT', 0xF1: 'PRINT', 0xF2: 'PROC', 0xF3: 'READ', 0xF4: 'REM',
    0xF5: 'REPEAT', 0xF6: 'REPORT', 0xF7: 'RESTORE', 0xF8: 'RETURN', 0xF9: 'RUN', 0xFA: 'STOP', 0xFB: 'COLOUR',
    0xFC: 'TRACE', 0xFD: 'UNTIL', 0xFE: 'WIDTH', 0xFF: 'OSCLI',
}
_WIN_LOW = {0x01: 'CIRCLE', 0x02: 'ELLIPSE', 0x03: 'FILL', 0x04: 'MOUSE', 0x05: 'ORIGIN', 0x06: 'QUIT',
            0x07: 'RECTANGLE', 0x08: 'SWAP', 0x09: 'SYS', 0x0A: 'TINT', 0x0B: 'WAIT', 0x0C: 'INSTALL',
            0x0E: 'PRIVATE', 0x0F: 'BY', 0x10: 'EXIT'}
# 0xC9..0xCE  (6502, Z80, ARM, Mac, Windows)
_C9CE = {0xC9: ('LIST', 'LIST', 'WHEN', 'WHEN', 'WHEN'), 0xCA: ('NEW', 'NEW', 'OF', 'OF', 'OF'),
         0xCB: ('OLD', 'OLD', 'ENDCASE', 'ENDCASE', 'ENDCASE'),
         0xCC: ('RENUMBER', 'RENUMBER', 'ELSE', 'ELSE', 'OTHERWISE'),
         0xCD: ('SAVE', 'SAVE', 'ENDIF', 'ENDIF', 'ENDIF'), 0xCE: ('EDIT', 'PUT', 'ENDWHILE', 'ENDWHILE', 'ENDWHILE')}
_COL = {'6502': 0, 'PDP11': 0, 'Z80': 1, 'ARM': 2, 'Mac': 3, 'Windows': 4}

class _S:
    def __init__(self, n):
        self.n = n

    def __repr__(self):
        return '<%s>' % self.n


EXT = _S('EXT')
LINENUM = _S('LINENUM')
FASTVAR = _S('FASTVAR')
PDPC8 = _S('PDPC8')
UNDEFINED = _S('UNDEFINED')     # the documentation is inconsistent / silent: outside the domain


def doc_base(dialect):
    """byte -> str expansion | INVALID | EXT | LINENUM | FASTVAR | PDPC8 | UNDEFINED, per the man page."""
    d = dialect
    m = {}
    m[0x00] = INVALID
    for b in range(0x01, 0x11):
        if b == 0x0D:
            m[b] = UNDEFINED         # line start/end marker; inside a line only meaningful in strings
        else:
            m[b] = _WIN_LOW[b] if d == 'Windows' else INVALID
    for b in range(0x11, 0x18):
        # "passed through unchanged"; but the Fast Variables bullet says 0x11..0x1F for Windows
        m[b] = UNDEFINED if d == 'Windows' else chr(b)
    for b in range(0x18, 0x20):
        m[b] = FASTVAR if d == 'Windows' else chr(b)
    for b in range(0x20, 0x7F):
        m[b] = chr(b)
    m[0x7F] = 'OTHERWISE' if d in ('ARM', 'Mac') else INVALID
    for b, s in _ALL.items():
        m[b] = s
    m[0x8D] = LINENUM
    for b, row in _C9CE.items():
        m[b] = row[_COL[d]]
    if d in ('ARM', 'Mac'):
        m[0xC6] = m[0xC7] = m[0xC8] = EXT
    elif d == 'Windows':
        m[0xC6], m[0xC7], m[0xC8] = 'SUM', 'WHILE', 'CASE'
    else:
        m[0xC6], m[0xC7], m[0xC8] = 'AUTO', 'DELETE', 'LOAD'
        if d == 'PDP11':
            m[0xC8] = PDPC8
    if d == 'Mac':
        m[0xFB] = UNDEFINED      # the man page's own table has a stray "COLOR" row for Mac
    return m


_C7_ARM = ['CRUNCH', 'DELETE', 'EDIT', 'HELP', 'LIST', 'LOAD', 'LVAR', 'NEW', 'OLD', 'RENUMBER', 'SAVE', 'TEXTLOAD',
           'TEXTSAVE', 'TWIN', 'TWINO', 'INSTALL']
_C7_MAC = ['DELETE', 'EDIT', 'HELP', 'LIST', 'LOAD', 'LVAR', 'NEW', 'OLD', 'RENUMBER', 'SAVE', 'TWIN', 'TWINO']
_C8 = ['CASE', 'CIRCLE', 'FILL', 'ORIGIN', 'POINT', 'RECTANGLE', 'SWAP', 'WHILE', 'WAIT', 'MOUSE', 'QUIT', 'SYS',
       'INSTALL', 'LIBRARY', 'TINT', 'ELLIPSE', 'BEATS', 'TEMPO', 'VOICES', 'VOICE', 'STEREO', 'OVERLAY', 'MANDEL',
       'PRIVATE', 'EXIT']


def doc_ext(dialect, intro):
    """second byte -> expansion | INVALID for extension byte `intro` in ARM / Mac."""
    m = {b: INVALID for b in range(256)}
    if dialect not in ('ARM', 'Mac'):
        return m
    if intro == 0xC6:
        m[0x8E], m[0x8F] = 'SUM', 'BEAT'
        if dialect == 'Mac':
            for i, s in enumerate(['ASK', 'ANSWER', 'SFOPENIN', 'SFOPENOUT', 'SFOPENUP', 'SFNAME$', 'MENU']):
                m[0x90 + i] = s
    elif intro == 0xC7:
        m[0x8E], m[0x8F] = 'APPEND', 'AUTO'
        for i, s in enumerate(_C7_ARM if dialect == 'ARM' else _C7_MAC):
            m[0x90 + i] = s
    elif intro == 0xC8:
        for i, s in enumerate(_C8):
            m[0x8E + i] = s
    return m


# ------------------------------------------------------------------ golden map (second anchor)
_golden = None


def golden():
    """{dialect: {'base'|'c6'|'c7'|'c8': {byte: str | None(invalid) | special-name}}}"""
    global _golden
    if _golden is not None:
        return _golden
    g = {}
    p = os.path.join(REPO, 'basic', 'testdata', 'golden-token-map.txt')
    for ln in open(p, encoding='latin-1'):
        ln = ln.rstrip('\n')
        m = re.match(r'^(\S+) \((\w+) map\): 0x([0-9A-F]{2})->(.*)$', ln)
        if m:
            d, mp, b, s = m.group(1), m.group(2), int(m.group(3), 16), m.group(4)
            if s == '(maps to itself)':
                s = chr(b)
            g.setdefault(d, {}).setdefault(mp, {})[b] = s
            continue
        m = re.match(r'^(\S+) \((\w+) map\): dialect has no valid tokens', ln)
        if m:
            g.setdefault(m.group(1), {})[m.group(2)] = {b: '__invalid__' for b in range(256)}
    _golden = g
    return g


_SPECIAL = {'__invalid__': INVALID, '__line_num__': LINENUM, '__fastvar__': FASTVAR, '__pdp__': PDPC8,
            '__c6__': EXT, '__c7__': EXT, '__c8__': EXT}


def agreed_tables(dialect):
    """(base, {0xC6:..,0xC7:..,0xC8:..}) where every entry on which man page and golden map disagree, or which the
    man page leaves undefined, is UNDEFINED."""
    d = CANON[dialect]
    g = golden()[d]
    base = doc_base(d)
    disagreements = []
    for b in range(256):
        gv = g['base'].get(b)
        gv = _SPECIAL.get(gv, gv)
        if base[b] is UNDEFINED:
            continue
        if gv != base[b]:
            disagreements.append(('base', b, base[b], gv))
            base[b] = UNDEFINED
    ext = {}
    for intro, nm in ((0xC6, 'c6'), (0xC7, 'c7'), (0xC8, 'c8')):
        e = doc_ext(d, intro)
        for b in range(256):
            gv = g[nm].get(b)
            gv = _SPECIAL.get(gv, gv)
            if gv != e[b]:
                disagreements.append((nm, b, e[b], gv))
                e[b] = UNDEFINED
        ext[intro] = e
    return base, ext, disagreements


def linenum_ref(b1, b2, b3):
    return (((b3 ^ (b1 << 4)) & 0xFF) << 8) | ((b2 ^ ((b1 << 2) & 0xC0)) & 0xFF)


def encode_linenum(n):
    """Canonical 0x8D encoding (as BASIC writes it)."""
    lo, hi = n & 0xFF, (n >> 8) & 0xFF
    b1 = (((lo & 0xC0) >> 2) | ((hi & 0xC0) >> 4)) ^ 0x54
    return bytes([0x8D, b1, (lo & 0x3F) | 0x40, (hi & 0x3F) | 0x40])


class Tables:
    def __init__(self, dialect):
        self.dialect = CANON[dialect]
        self.base, self.ext, self.disagreements = agreed_tables(dialect)


WELL, ILL, OUT = 'well', 'ill', 'out'


def decode_line_body(t, data):
    """Decode the token bytes of one line.  Returns (status, text, loops) where status is
       'well' (text is the documented listing of the body),
       'ill'  (documentation says this is not a valid encoding for the dialect: must be rejected),
       'out'  (outside the domain: documentation silent/inconsistent).
    loops = (for, next, repeat, until) token counts outside strings."""
    out = bytearray()
    i = 0
    n = len(data)
    in_string = False
    f = nx = rp = un = 0
    status = WELL
    while i < n:
        b = data[i]
        i += 1
        if in_string:
            if b == 0:
                return (OUT, None, None)        # NUL inside a string: the tool refuses; property silent
            out.append(b)
            if b == 0x22:
                in_string = False
            continue
        v = t.base[b]
        if v is UNDEFINED:
            return (OUT, None, None)
        if v is INVALID:
            return (ILL, None, None)
        if v is FASTVAR:
            return (ILL, None, None)
        if v is LINENUM:
            if n - i < 3:
                return (ILL, None, None)
            out += b'%d' % linenum_ref(data[i], data[i + 1], data[i + 2])
            i += 3
            continue
        if v is EXT:
            if i >= n:
                return (ILL, None, None)
            e = t.ext[b][data[i]]
            i += 1
            if e is UNDEFINED:
                return (OUT, None, None)
            if e is INVALID:
                return (ILL, None, None)
            out += e.encode('latin-1')
            continue
        if v is PDPC8:
            if i >= n:
                return (OUT, None, None)        # PDP11 0xC8 as last byte of a line: man page silent
            if data[i] == 0x98:
                out += b'QUIT'
                i += 1
            else:
                out += b'LOAD'                   # next byte is then interpreted separately
            continue
        out += v.encode('latin-1')
        if b == 0x22:
            in_string = True
        elif b == 0xE3:
            f += 1
        elif b == 0xED:
            nx += 1
        elif b == 0xF5:
            rp += 1
        elif b == 0xFD:
            un += 1
    return (status, bytes(out), (f, nx, rp, un))


def frame(dialect, lines):
    """lines: [(number, body bytes)] -> file bytes in the dialect's framing."""
    d = CANON[dialect]
    out = bytearray()
    if d in BIG_ENDIAN:
        for num, body in lines:
            out += bytes([0x0D, (num >> 8) & 0xFF, num & 0xFF, len(body) + 4]) + body
        out += b'\x0D\xFF'
    else:
        for num, body in lines:
            out += bytes([len(body) + 4, num & 0xFF, (num >> 8) & 0xFF]) + body + b'\x0D'
        out += b'\x00\xFF\xFF'
    return bytes(out)


def max_body(dialect):
    return 255 - 4


def listing(dialect, lines, listo):
    """Reference listing of a whole program; returns (status, text).  'out' if any line is outside the
    domain (including loop-indent cases the manual does not define: a line that both opens and closes
    a loop of the same kind, or closes more loops than are open)."""
    t = Tables(dialect)
    out = bytearray()
    indent = 0
    for num, body in lines:
        st, text, loops = decode_line_body(t, body)
        if st != WELL:
            return (st, bytes(out))
        f, nx, rp, un = loops
        if not (listo & 2):
            f = nx = 0
        if not (listo & 4):
            rp = un = 0
        if (f and nx) or (rp and un):
            return (OUT, bytes(out))
        indent -= 2 * (nx + un)
        if indent < 0:
            return (OUT, bytes(out))
        out += (b'%5d' % num) if num else b'     '
        if listo & 1:
            out += b' '
        out += b' ' * indent
        out += text + b'\n'
        indent += 2 * (f + rp)
    return (WELL, bytes(out))


def parse_program(dialect, data):
    """Reference framing parser per doc/bbcbasic.5.  Returns (status, lines) where status is
    'well' (lines complete, proper end marker at the very end of the file),
    'ill'  (framing the documentation rules out: bad start byte, impossible length, missing terminator,
            physical EOF before the end of the end-of-program marker),
    'out'  (documentation silent: bytes after the end marker, little-endian length 3, empty file)."""
    d = CANON[dialect]
    lines = []
    i, n = 0, len(data)
    if n == 0:
        return (OUT, lines)
    if d in BIG_ENDIAN:
        while True:
            if i >= n:
                return (ILL, lines)              # EOF without marker
            if data[i] != 0x0D:
                return (ILL, lines)              # bad start byte
            if i + 1 >= n:
                return (ILL, lines)
            if data[i + 1] == 0xFF:
                if i + 2 == n:
                    return (WELL, lines)
                return (OUT, lines)              # bytes after the end marker
            if i + 3 >= n:
                return (ILL, lines)
            hi, lo, ln = data[i + 1], data[i + 2], data[i + 3]
            if ln < 4:
                return (ILL, lines)
            if i + ln > n:
                return (ILL, lines)              # line extends beyond physical EOF
            lines.append((hi * 256 + lo, bytes(data[i + 4:i + ln])))
            i += ln
    else:
        while True:
            if i >= n:
                return (ILL, lines)
            ln = data[i]
            if ln == 0:
                if i + 2 >= n:
                    return (ILL, lines)          # cut inside the marker
                if data[i + 1] != 0xFF or data[i + 2] != 0xFF:
                    return (ILL, lines)
                if i + 3 == n:
                    return (WELL, lines)
                return (OUT, lines)
            if ln < 3:
                return (ILL, lines)
            if ln == 3:
                return (OUT, lines)
            if i + ln > n:
                return (ILL, lines)
            if data[i + ln - 1] != 0x0D:
                return (ILL, lines)              # missing terminator
            lo, hi = data[i + 1], data[i + 2]
            lines.append((hi * 256 + lo, bytes(data[i + 3:i + ln - 1])))
            i += ln


def classify(dialect, data, listo):
    """(status, reference listing or None).  'ill' if framing or any token is ruled out by the documentation."""
    st, lines = parse_program(dialect, data)
    if st == OUT:
        return (OUT, None)
    t = Tables(dialect)
    # token level: first problem in file order decides
    for num, body in lines:
        s, _, _ = decode_line_body(t, body)
        if s != WELL:
            return (s, None)
    if st == ILL:
        return (ILL, None)
    s, text = listing(dialect, lines, listo)
    return (s, text if s == WELL else None)


def listing_lines(dialect, lines, listo):
    """Like listing() but line by line and covering lines that both open and close loops of the same kind.
    Returns (status, [set of acceptable renderings per line]).  For a line that closes c and opens o loops the
    indentation of *following* lines is determined (indent - 2c + 2o, which must stay >= 0); the indentation of the
    line itself is what the manual leaves open (at the enclosing loop's level, or at the current level), so both
    are accepted for that line only."""
    t = Tables(dialect)
    out = []
    indent = 0
    for num, body in lines:
        st, text, loops = decode_line_body(t, body)
        if st != WELL:
            return (st, out)
        f, nx, rp, un = loops
        if not (listo & 2):
            f = nx = 0
        if not (listo & 4):
            rp = un = 0
        closes, opens = nx + un, f + rp
        after = indent - 2 * closes + 2 * opens
        if after < 0:
            return (OUT, out)
        head = (b'%5d' % num) if num else b'     '
        if listo & 1:
            head += b' '
        if closes and opens:
            cands = {max(indent - 2 * closes, 0), indent}
        else:
            if indent - 2 * closes < 0:
                return (OUT, out)
            cands = {indent - 2 * closes}
        out.append(set(head + b' ' * k + text + b'\n' for k in cands))
        indent = after
    return (WELL, out)
