"""Builders for DFS-family catalogues and sector-dump containers.  Written from the format
descriptions (Acorn DFS user guide layout, Watford 62-file extension, Opus DDOS volume table,
doc/mmb.5), not from the code under test.  This is the *reference* side: a disc is described
by plain Python data and every oracle reads that description, never the image bytes."""
import struct, hashlib

SEC = 256


class Entry:
    __slots__ = ('name', 'dir', 'locked', 'load', 'exec', 'length', 'start', 'body')

    def __init__(self, name, dir=b'$', locked=False, load=0, exec=0, length=0, start=2, body=None):
        self.name = name if isinstance(name, bytes) else name.encode('latin-1')
        self.dir = dir if isinstance(dir, bytes) else dir.encode('latin-1')
        self.locked, self.load, self.exec, self.length, self.start = locked, load, exec, length, start
        self.body = body

    def nsect(self):
        return (self.length + 255) // 256

    def full(self):
        return self.dir + b'.' + self.name

    def desc(self):
        return {'dir': self.dir.decode('latin-1'), 'name': self.name.decode('latin-1'), 'locked': self.locked,
                'load': self.load, 'exec': self.exec, 'length': self.length, 'start': self.start}


def mixed_byte(e):
    return ((e.exec >> 16) & 3) << 6 | ((e.length >> 16) & 3) << 4 | ((e.load >> 16) & 3) << 2 | ((e.start >> 8) & 3)


def catalogue(title, cycle, boot, total, entries, pad=b' ', s0_head=None, s1_6_extra=0, mixed_override=None):
    """Two 256-byte sectors of an Acorn-layout catalogue fragment."""
    assert len(entries) <= 31
    t = title + pad * (12 - len(title))
    s0 = bytearray(256)
    s1 = bytearray(256)
    s0[0:8] = t[0:8] if s0_head is None else s0_head
    s1[0:4] = t[8:12]
    s1[4] = cycle & 0xFF
    s1[5] = 8 * len(entries)
    s1[6] = ((boot & 3) << 4) | ((total >> 8) & 3) | s1_6_extra
    s1[7] = total & 0xFF
    for i, e in enumerate(entries):
        o = 8 + 8 * i
        nm = e.name + b' ' * (7 - len(e.name))
        s0[o:o + 7] = nm[:7]
        s0[o + 7] = (e.dir[0] & 0x7F) | (0x80 if e.locked else 0)
        s1[o:o + 2] = struct.pack('<H', e.load & 0xFFFF)
        s1[o + 2:o + 4] = struct.pack('<H', e.exec & 0xFFFF)
        s1[o + 4:o + 6] = struct.pack('<H', e.length & 0xFFFF)
        s1[o + 6] = mixed_byte(e) if mixed_override is None else mixed_override
        s1[o + 7] = e.start & 0xFF
    return bytes(s0), bytes(s1)


def fill_pattern(tag, nsect):
    """Position-dependent filler: every sector differs, every byte position differs from its
    neighbours, so any mis-addressed or mis-counted byte shows."""
    out = bytearray()
    for s in range(nsect):
        h = hashlib.blake2b(b'%s/%d' % (tag, s), digest_size=64).digest()
        out += (h * 4)
    return out


def file_body(tag, e):
    """Deterministic body for a file: pseudo-random bytes keyed by tag/name/start."""
    if e.body is not None:
        assert len(e.body) == e.length
        return e.body
    n = e.length
    seed = b'%s|%s|%d' % (tag, e.full(), e.start)
    out = bytearray()
    i = 0
    while len(out) < n:
        out += hashlib.blake2b(seed + b'%d' % i, digest_size=64).digest()
        i += 1
    return bytes(out[:n])


class Volume:
    """One catalogue + its files.  For Acorn/Watford the volume is the whole surface and start
    sectors are absolute; for Opus, start sectors are relative to the volume's first data sector."""

    def __init__(self, entries, title=b'', cycle=0, boot=0, total=None, entries2=None):
        self.entries = list(entries)         # catalogue order (first catalogue)
        self.entries2 = list(entries2) if entries2 is not None else None   # Watford second catalogue
        self.title, self.cycle, self.boot, self.total = title, cycle, boot, total

    def all_entries(self):
        return self.entries + (self.entries2 or [])


def acorn_surface(vol, nsectors, tag=b'A', watford=False, fill=None, title_pad=b' '):
    """Bytes of one surface (nsectors*256) holding an Acorn (or Watford) volume."""
    img = bytearray(fill if fill is not None else fill_pattern(tag + b'/bg', nsectors))
    assert len(img) == nsectors * SEC
    total = vol.total if vol.total is not None else nsectors
    s0, s1 = catalogue(vol.title, vol.cycle, vol.boot, total, vol.entries, pad=title_pad)
    img[0:256] = s0
    img[256:512] = s1
    if watford:
        e2 = vol.entries2 or []
        s2, s3 = catalogue(b'', vol.cycle, vol.boot, total, e2, s0_head=b'\xAA' * 8)
        img[512:768] = s2
        img[768:1024] = s3
    first = 4 if watford else 2
    for e in vol.all_entries():
        if e.start < first:
            continue        # ill-formed entry (metadata-only families): never write a body over the catalogue
        b = file_body(tag, e)
        img[e.start * SEC:e.start * SEC + len(b)] = b
    return bytes(img)


def opus_surface(vols, tracks=80, tag=b'O', fill=None, table=None, s16_extra=None):
    """vols: dict letter -> (start_track, Volume).  Returns surface bytes (tracks*18 sectors).
    Volume total defaults to its extent (to next volume / end of disc)."""
    nsect = tracks * 18
    img = bytearray(fill if fill is not None else fill_pattern(tag + b'/bg', nsect))
    s16 = bytearray(256)
    s16[0] = 0x20
    s16[1] = (nsect >> 8) & 0xFF
    s16[2] = nsect & 0xFF
    s16[3] = 18
    s16[4] = tracks
    starts = sorted((st, l) for l, (st, v) in vols.items())
    ext = {}
    for i, (st, l) in enumerate(starts):
        end = starts[i + 1][0] * 18 if i + 1 < len(starts) else nsect
        ext[l] = (st * 18, end - st * 18)
    for i, l in enumerate('ABCDEFGH'):
        if l in vols:
            s16[8 + 2 * i] = vols[l][0]
    if table is not None:
        s16[8:8 + len(table)] = table
    img[16 * SEC:17 * SEC] = s16
    img[17 * SEC:18 * SEC] = bytes(256)
    for i, l in enumerate('ABCDEFGH'):
        if l not in vols:
            img[2 * i * SEC:(2 * i + 2) * SEC] = bytes(512)
            continue
        st, v = vols[l]
        origin, length = ext[l]
        total = v.total if v.total is not None else length
        s0, s1 = catalogue(v.title, v.cycle, v.boot, total, v.entries)
        img[2 * i * SEC:(2 * i + 1) * SEC] = s0
        img[(2 * i + 1) * SEC:(2 * i + 2) * SEC] = s1
        for e in v.entries:
            b = file_body(tag + l.encode(), e)
            o = (origin + e.start) * SEC
            img[o:o + len(b)] = b
    return bytes(img), ext


def interleave(side0, side1, spt):
    """Track-interleaved two-sided image (.dsd/.ddd)."""
    t = spt * SEC
    out = bytearray()
    n = max(len(side0), len(side1)) // t
    for i in range(n):
        out += side0[i * t:(i + 1) * t].ljust(t, b'\0')
        out += side1[i * t:(i + 1) * t].ljust(t, b'\0')
    return bytes(out)


MMB_SLOTS = 511
MMB_DISC = 204800


def mmb_header(status, names=None):
    """8192-byte MMB table. status: dict slot->status byte (default 0xF0 unformatted)."""
    h = bytearray(8192)
    h[0:8] = bytes([0, 1, 2, 3, 0, 0, 0, 0])
    for slot in range(MMB_SLOTS):
        o = 16 * (slot + 1)
        nm = (names or {}).get(slot, b'')
        h[o:o + len(nm)] = nm[:12]
        h[o + 15] = status.get(slot, 0xF0)
    return bytes(h)


def layouts(first, total, sizes, maxfiles):
    """All non-overlapping placements of up to maxfiles files with sector counts from `sizes`
    (0 allowed: zero-length file) on sectors [first,total).  Yields lists of (start, nsect) in
    ascending start order.  Zero-length files may share a start with the following file."""
    def rec(pos, k):
        yield []
        if k == 0:
            return
        for st in range(pos, total):
            for n in sizes:
                if st + n > total:
                    continue
                for rest in rec(st + n, k - 1):
                    yield [(st, n)] + rest
    return rec(first, maxfiles)


# ------------------------------------------------------------------ spec -> image
def _entries(lst):
    return [Entry(n.encode('latin-1') if isinstance(n, str) else n,
                  d.encode('latin-1') if isinstance(d, str) else d, bool(lk), ld, ex, ln, st)
            for (n, d, lk, ld, ex, ln, st) in lst]


def build_spec(spec):
    """spec (JSON-able dict) -> (image bytes of ONE surface, model).
    model: list of {'vol': letter|None, 'e': Entry, 'body': bytes, 'origin': first data sector of volume}"""
    kind = spec['kind']
    nsect = spec['tracks'] * spec['spt']
    tag = spec.get('tag', 'T').encode()
    title = spec.get('title', '').encode('latin-1')
    model = []
    if kind in ('acorn', 'watford'):
        v = Volume(_entries(spec.get('files', [])), title, spec.get('cycle', 0), spec.get('boot', 0),
                   spec.get('total'), _entries(spec['files2']) if kind == 'watford' else None)
        img = acorn_surface(v, nsect, tag, watford=(kind == 'watford'))
        for e in v.all_entries():
            model.append({'vol': None, 'e': e, 'body': file_body(tag, e), 'origin': 0})
        return img, model
    if kind == 'opus':
        assert spec['spt'] == 18
        vols = {}
        for l, vs in spec['vols'].items():
            vols[l] = (vs['track'], Volume(_entries(vs.get('files', [])), vs.get('title', '').encode('latin-1'),
                                           vs.get('cycle', 0), vs.get('boot', 0), vs.get('total')))
        img, ext = opus_surface(vols, spec['tracks'], tag)
        for l, (st, v) in sorted(vols.items()):
            for e in v.entries:
                model.append({'vol': l, 'e': e, 'body': file_body(tag + l.encode(), e), 'origin': ext[l][0],
                              'extent': ext[l][1]})
        return img, model
    raise ValueError(kind)
