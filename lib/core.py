"""Check context: tallies, violations, known findings, replay files, evidence."""
import os, sys, json, time, hashlib, base64

VERIF = os.path.dirname(os.path.dirname(os.path.abspath(__file__)))


def b64(b):
    return base64.b64encode(bytes(b)).decode()


def unb64(s):
    return base64.b64decode(s)


def load_findings():
    p = os.path.join(VERIF, 'known_findings.json')
    if not os.path.exists(p):
        return []
    return json.load(open(p))


class Ctx:
    """One run of one property check."""

    def __init__(self, pid, tier, level, seed=0, quick_s=240, thorough_s=2400):
        self.pid, self.tier, self.level, self.seed = pid, tier, level, seed
        self.t0 = time.time()
        budget = quick_s if tier == 'quick' else thorough_s
        if os.environ.get('VERIF_BUDGET_S'):
            budget = float(os.environ['VERIF_BUDGET_S'])
        self.deadline = self.t0 + budget
        self.evaluations = 0
        self.nontrivial = set()       # hashes of distinct non-trivial cases
        self.families = {}            # name -> dict(evaluations=, nontrivial=, outcomes={}, complete=bool)
        self.samples = []
        self.violations = {}          # signature -> first case
        self.violation_count = 0
        self.known_hit = {}           # signature -> text
        self.findings = [f for f in load_findings() if f.get('property') == pid and f.get('status', 'open') == 'open']
        self.extra = {}
        self.assumptions = []
        self.rule = ''
        self.exhaustive = True
        self.cur = None

    # ------------------------------------------------------------ families
    def family(self, name, rule=None):
        self.cur = self.families.setdefault(name, {'evaluations': 0, 'distinct_nontrivial': 0, 'outcomes': {},
                                                   'complete': False})
        if rule:
            self.cur['rule'] = rule
        return self.cur

    def done(self, name=None, complete=True):
        f = self.families[name] if name else self.cur
        f['complete'] = complete
        if not complete:
            self.exhaustive = False

    def timed_out(self):
        return time.time() > self.deadline

    def tally(self, outcome='ok', nontrivial_key=None, n=1, sample=None):
        self.evaluations += n
        f = self.cur
        f['evaluations'] += n
        f['outcomes'][outcome] = f['outcomes'].get(outcome, 0) + n
        if nontrivial_key is not None:
            h = hashlib.blake2b(repr(nontrivial_key).encode(), digest_size=8).digest()
            if h not in self.nontrivial:
                self.nontrivial.add(h)
                f['distinct_nontrivial'] += 1
        if sample is not None and len([s for s in self.samples if s.get('family') == self._fname()]) < 2:
            s = dict(sample)
            s['family'] = self._fname()
            self.samples.append(s)

    def _fname(self):
        for k, v in self.families.items():
            if v is self.cur:
                return k
        return '?'

    # ------------------------------------------------------------ violations
    def violation(self, signature, case, text):
        """signature: structural class of the failure (string).  case: JSON-able replay record."""
        self.violation_count += 1
        for f in self.findings:
            if f['signature'] == signature:
                if signature not in self.known_hit:
                    self.known_hit[signature] = (f['text'], case)
                return
        if signature not in self.violations:
            self.violations[signature] = (case, text)

    # ------------------------------------------------------------ finish
    def finish(self):
        wall = time.time() - self.t0
        rc = 0
        for sig, (text, case) in sorted(self.known_hit.items()):
            print('KNOWN-FINDING: property=%s %s [signature %s]' % (self.pid, text, sig))
        rdir = os.path.join(VERIF, 'build', 'scratch-evidence', 'replay', self.pid) if os.environ.get('VERIF_REPO') else os.path.join(VERIF, 'replay', self.pid)
        if self.violations:
            os.makedirs(rdir, exist_ok=True)
        for i, (sig, (case, text)) in enumerate(sorted(self.violations.items())):
            p = os.path.join(rdir, '%s.json' % hashlib.sha1(sig.encode()).hexdigest()[:12])
            json.dump({'property': self.pid, 'signature': sig, 'text': text, 'case': case}, open(p, 'w'), indent=1)
            print('VIOLATION property=%s replay=%s' % (self.pid, p))
            print('  signature: %s' % sig)
            print('  %s' % text)
            rc = 1
        for name, f in self.families.items():
            if not f['complete']:
                self.exhaustive = False
        cov = {
            'evaluations': self.evaluations,
            'distinct_nontrivial': len(self.nontrivial) + getattr(self, 'bulk_nt', 0),
            'rule': self.rule,
            'samples': self.samples[:40],
            'exhaustive': bool(self.exhaustive),
            'families': self.families,
            'known_findings_hit': sorted(self.known_hit),
            'new_violation_signatures': sorted(self.violations),
        }
        cov.update(self.extra)
        ev = {'property_id': self.pid, 'tier': self.tier, 'seed': self.seed, 'level': self.level,
              'coverage': cov, 'assumptions': self.assumptions, 'wall_s': round(wall, 2),
              'violations': len(self.violations)}
        # evidence describes runs against /repo itself; runs against a scratch copy (VERIF_REPO, used to try
        # seeded changes) must not overwrite it
        edir = 'evidence' if os.environ.get('VERIF_REPO', '/repo') == '/repo' else os.path.join('build', 'scratch-evidence')
        os.makedirs(os.path.join(VERIF, edir), exist_ok=True)
        p = os.path.join(VERIF, edir, self.pid + '.json')
        tmp = p + '.tmp'
        json.dump(ev, open(tmp, 'w'), indent=1, default=str)
        os.replace(tmp, p)
        print('%s %s: evaluations=%d distinct_nontrivial=%d exhaustive=%s violations=%d known=%d wall=%.1fs' % (
            self.pid, self.tier, self.evaluations, len(self.nontrivial) + getattr(self, 'bulk_nt', 0), self.exhaustive,
            len(self.violations), len(self.known_hit), wall))
        for name, f in self.families.items():
            print('  family %-28s evals=%-8d nontrivial=%-7d complete=%s outcomes=%s' % (
                name, f['evaluations'], f['distinct_nontrivial'], f['complete'],
                dict(sorted(f['outcomes'].items(), key=lambda kv: -kv[1])[:8])))
        return rc

    # ------------------------------------------------------------ standard worker-result plumbing
    def tally_nt(self, key):
        h = hashlib.blake2b(repr(key).encode(), digest_size=8).digest()
        if h not in self.nontrivial:
            self.nontrivial.add(h)
            self.cur['distinct_nontrivial'] += 1

    def absorb(self, res):
        """res = {'n': int, 'out': {outcome: count}, 'viol': [(sig, text)], 'nt': [keys], 'case': case|None}"""
        for sig, text in res.get('viol', ()):
            self.violation(sig, res.get('case'), text)
        self.evaluations += res['n']
        self.cur['evaluations'] += res['n']
        for k, v in res.get('out', {}).items():
            self.cur['outcomes'][k] = self.cur['outcomes'].get(k, 0) + v
        for k in res.get('nt', ()):
            self.tally_nt(k)
        for s in res.get('samples', ()):
            if len([x for x in self.samples if x.get('family') == self._fname()]) < 2:
                s = dict(s)
                s['family'] = self._fname()
                self.samples.append(s)

    def explore(self, families, worker, tier, chunksize=4):
        """families: [(name, generator_fn(tier))]; worker(case)->res (module-level function)."""
        from . import run
        for name, gen in families:
            self.family(name, (gen.__doc__ or '').strip())
            only = os.environ.get('VERIF_ONLY_FAMILY')     # development aid: other families are reported incomplete
            if only and not any(name.startswith(o) for o in only.split(',')):
                self.done(name, False)
                continue
            if run.Deadline.hit or self.timed_out():
                self.done(name, False)
                continue
            for res in run.pmap(worker, gen(tier), chunksize=chunksize, deadline=self.deadline):
                self.absorb(res)
            self.done(name, not run.Deadline.hit)
