"""Small valid image files of every supported extension (shared by C07, C10, C12, C18, C19)."""
import gzip, io, struct
from . import disc, flux


def E(name, start, length, dir='$', locked=False, load=0x1900, exec=0x8023):
    return [name, dir, locked, load, exec, length, start]


def small_surface(kind='acorn', tracks=40, spt=10, total=None, tag='S', title='SMALL'):
    first = 4 if kind == 'watford' else 2
    files = [E('HELLO', first + 4, 300), E('WORLD', first + 2, 256, dir='W', locked=True), E('!BOOT', first, 17)]
    spec = {'kind': kind, 'tracks': tracks, 'spt': spt, 'files': files, 'files2': [], 'title': title, 'tag': tag,
            'total': total if total is not None else min(tracks * spt, 1023), 'boot': 3, 'cycle': 0x12}
    if kind == 'watford':
        spec['files2'] = [E('SECOND', first + 8, 100)]
    img, model = disc.build_spec(spec)
    return img, model, spec


def opus_surface(tracks=40):
    vols = {'A': {'track': 1, 'files': [E('HELLO', 4, 300), E('!BOOT', 0, 17)], 'title': 'OPUS-A', 'total': 36},
            'B': {'track': 3, 'files': [E('BFILE', 2, 600)], 'title': 'OPUS-B'}}
    spec = {'kind': 'opus', 'tracks': tracks, 'spt': 18, 'vols': vols, 'tag': 'O'}
    img, model = disc.build_spec(spec)
    return img, model, spec


def gz(data, level=6, mtime=0, fname=None):
    buf = io.BytesIO()
    with gzip.GzipFile(filename=fname or '', mode='wb', fileobj=buf, compresslevel=level, mtime=mtime) as f:
        f.write(data)
    return buf.getvalue()


def valid_images(small=True):
    """{ext: (bytes, info)} - minimal but fully valid files.  `small`: image files are cut after the
    last used sector where the container allows it."""
    out = {}
    s, m, sp = small_surface('acorn', 40, 10)
    cut = 14 * 256
    out['ssd'] = s[:cut] if small else s
    s18, _, _ = small_surface('acorn', 40, 18)
    out['sdd'] = s18[:cut] if small else s18
    s2, _, _ = small_surface('watford', 40, 10, tag='T', title='SIDE2')
    out['dsd'] = disc.interleave(s, s2, 10)[:(2 * 10 * 256 * (2 if small else 40))]
    s218, _, _ = small_surface('acorn', 40, 18, tag='U', title='SIDE2')
    out['ddd'] = disc.interleave(s18, s218, 18)[:(2 * 18 * 256 * (2 if small else 40))]
    s80, _, _ = small_surface('acorn', 80, 10)
    hdr = disc.mmb_header({0: 0x0F, 1: 0x00, 2: 0xF0, 3: 0xFF})
    out['mmb'] = hdr + s80.ljust(disc.MMB_DISC, b'\0') + (s80[:cut] if small else s80)
    # flux: 2-track FM hfe whose catalogue says 20 sectors; 2-track MFM .mfm (36 sectors)
    sf, _, _ = small_surface('acorn', 2, 10, total=20)
    out['hfe'] = flux.hfe_from_surfaces([sf], 2, 10, 'FM', 1)
    sm, _, _ = small_surface('acorn', 2, 18, total=36)
    out['mfm'] = flux.hxcmfm_from_surfaces([sm], 2, 18)
    return out


EXTS = ['ssd', 'sdd', 'dsd', 'ddd', 'mmb', 'hfe', 'mfm']
