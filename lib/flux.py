"""IBM 3740 (FM) and System-34 (MFM) track encoders, HFE v1/v3 and HxC-MFM container writers.
Written from the format descriptions (IBM track layouts; HxC HFE file format notes), not from the
decoders under test.  A track is a list of cell bits in time order."""
import struct

# ---------------------------------------------------------------- CRC-16/CCITT (init FFFF, poly 1021)
_T = []
for _i in range(256):
    _c = _i << 8
    for _ in range(8):
        _c = ((_c << 1) ^ 0x1021) & 0xFFFF if _c & 0x8000 else (_c << 1) & 0xFFFF
    _T.append(_c)


def crc16(data, init=0xFFFF):
    c = init
    for b in data:
        c = ((c << 8) & 0xFFFF) ^ _T[((c >> 8) ^ b) & 0xFF]
    return c


# ---------------------------------------------------------------- FM
def fm_byte(data, clock=0xFF):
    out = []
    for i in range(7, -1, -1):
        out.append((clock >> i) & 1)
        out.append((data >> i) & 1)
    return out


def fm_track(sectors, gap1=16, gap2=11, gap3=21, sync=6, gap4=40, index_mark=True, size_code=1,
             drop_data_mark=(), bad_data_crc=(), bad_id_crc=(), deleted=(), tail=8):
    """sectors: list of (cyl, head, rec, data bytes) in physical order.  Returns list of cell bits.
    drop_data_mark/bad_data_crc/bad_id_crc/deleted: sets of indices into `sectors`."""
    bits = []

    def put(bs, clock=0xFF):
        for b in bs:
            bits.extend(fm_byte(b, clock))
    if index_mark:
        put(b'\xff' * gap4)
        put(b'\x00' * sync)
        put(b'\xfc', 0xD7)
    put(b'\xff' * gap1)
    spans = []
    for i, sec in enumerate(sectors):
        c, h, r, data = sec[:4]
        sc = sec[4] if len(sec) > 4 else size_code
        start = len(bits)
        put(b'\x00' * sync)
        idf = bytes([0xFE, c, h, r, sc])
        crc = crc16(idf)
        if i in bad_id_crc:
            crc ^= 0x0101
        put(b'\xfe', 0xC7)
        put(idf[1:] + struct.pack('>H', crc))
        id_end = len(bits)
        put(b'\xff' * gap2)
        put(b'\x00' * sync)
        mark = 0xF8 if i in deleted else 0xFB
        if len(sec) > 5 and sec[5] is not None:
            mark = sec[5]            # explicit data address mark (CRC computed over it, i.e. valid)
        crc = crc16(bytes([mark]) + bytes(data))
        if i in bad_data_crc:
            crc ^= 0x0101
        dm_start = len(bits)
        if i in drop_data_mark:
            put(bytes([mark]), 0xFF)           # data mark written with an ordinary clock: not a mark
        else:
            put(bytes([mark]), 0xC7)
        data_start = len(bits)
        put(bytes(data) + struct.pack('>H', crc))
        data_end = len(bits)
        put(b'\xff' * gap3)
        spans.append({'start': start, 'id_end': id_end, 'dm': dm_start, 'data': data_start, 'data_end': data_end,
                      'end': len(bits)})
    put(b'\xff' * tail)
    return bits, spans


# ---------------------------------------------------------------- MFM
def mfm_cells(data_bytes, prev_bit=0):
    """Encode bytes with normal MFM clocks. Returns (cells, last data bit)."""
    out = []
    p = prev_bit
    for b in data_bytes:
        for i in range(7, -1, -1):
            d = (b >> i) & 1
            out.append(1 if (p == 0 and d == 0) else 0)
            out.append(d)
            p = d
    return out, p


A1_SYNC = [int(x) for x in '0100010010001001']      # 0x4489: A1 with a missing clock
C2_SYNC = [int(x) for x in '0101001000100100']      # 0x5224: C2 with a missing clock


def mfm_track(sectors, gap1=50, gap2=22, gap3=40, sync=12, gap4=80, index_mark=True, size_code=1,
              bad_data_crc=(), bad_id_crc=(), deleted=(), drop_data_sync=(), tail=8):
    bits = []
    state = {'p': 0}

    def put(bs):
        cells, state['p'] = mfm_cells(bs, state['p'])
        bits.extend(cells)

    def put_sync(pattern, n=3):
        for _ in range(n):
            bits.extend(pattern)
        state['p'] = pattern[-1]
    if index_mark:
        put(b'\x4e' * gap4)
        put(b'\x00' * sync)
        put_sync(C2_SYNC)
        put(b'\xfc')
    put(b'\x4e' * gap1)
    spans = []
    for i, sec in enumerate(sectors):
        c, h, r, data = sec[:4]
        sc = sec[4] if len(sec) > 4 else size_code
        start = len(bits)
        put(b'\x00' * sync)
        put_sync(A1_SYNC)
        idf = bytes([0xFE, c, h, r, sc])
        crc = crc16(b'\xa1\xa1\xa1' + idf)
        if i in bad_id_crc:
            crc ^= 0x0101
        put(idf + struct.pack('>H', crc))
        id_end = len(bits)
        put(b'\x4e' * gap2)
        put(b'\x00' * sync)
        dm_start = len(bits)
        if i in drop_data_sync:
            put(b'\xa1\xa1\xa1')               # ordinary clocks: not a sync
        else:
            put_sync(A1_SYNC)
        mark = 0xF8 if i in deleted else 0xFB
        if len(sec) > 5 and sec[5] is not None:
            mark = sec[5]            # explicit data address mark (CRC computed over it, i.e. valid)
        crc = crc16(b'\xa1\xa1\xa1' + bytes([mark]) + bytes(data))
        if i in bad_data_crc:
            crc ^= 0x0101
        put(bytes([mark]))
        data_start = len(bits)
        put(bytes(data) + struct.pack('>H', crc))
        data_end = len(bits)
        put(b'\x4e' * gap3)
        spans.append({'start': start, 'id_end': id_end, 'dm': dm_start, 'data': data_start, 'data_end': data_end,
                      'end': len(bits)})
    put(b'\x4e' * tail)
    return bits, spans


# ---------------------------------------------------------------- bit packing
def pack_lsb_first(bits):
    """first bit in time -> bit 0 of byte 0"""
    out = bytearray((len(bits) + 7) // 8)
    for i, b in enumerate(bits):
        if b:
            out[i >> 3] |= 1 << (i & 7)
    return bytes(out)


def pack_msb_first(bits):
    out = bytearray((len(bits) + 7) // 8)
    for i, b in enumerate(bits):
        if b:
            out[i >> 3] |= 0x80 >> (i & 7)
    return bytes(out)


def fm_to_hfe_cells(bits):
    """HFE stores FM at twice the cell rate: each FM cell is preceded by an empty half-cell."""
    out = []
    for b in bits:
        out.append(0)
        out.append(b)
    return out


def revbits(b):
    return int('{:08b}'.format(b)[::-1], 2)


# ---------------------------------------------------------------- HFE
def hfe_image(sides, encoding, version=1, pad_tracks=True, ntracks=None, lut_block=1, first_track_block=2,
              opcode_streams=None, lut_exact=False):
    """sides: list (1 or 2) of lists of per-track byte strings (already packed LSB-first, i.e. as they
    appear in the file for that side).  encoding: 'FM' | 'MFM'.
    opcode_streams: if given, same shape as sides but the byte strings are used verbatim (v3 streams)."""
    nsides = len(sides)
    nt = ntracks if ntracks is not None else len(sides[0])
    hdr = bytearray(b'\xff' * 512)
    hdr[0:8] = b'HXCPICFE' if version == 1 else b'HXCHFEV3'
    hdr[8] = 0
    hdr[9] = nt
    hdr[10] = nsides
    hdr[11] = 2 if encoding == 'FM' else 0
    struct.pack_into('<H', hdr, 12, 250)
    struct.pack_into('<H', hdr, 14, 300)
    hdr[16] = 7
    hdr[17] = 1
    struct.pack_into('<H', hdr, 18, lut_block)
    hdr[20] = 0xFF
    hdr[21] = 0xFF
    hdr[22] = 0xFF
    hdr[23] = 0xFF
    hdr[24] = 0xFF
    hdr[25] = 0xFF
    lut = bytearray(b'\xff' * 512)
    body = bytearray()
    block = first_track_block
    for t in range(len(sides[0])):
        s0 = sides[0][t]
        s1 = sides[1][t] if nsides > 1 else b''
        n = max(len(s0), len(s1))
        # both sides padded to the same number of 256-byte blocks
        nblk = (n + 255) // 256
        tr = bytearray()
        for k in range(nblk):
            c0 = s0[k * 256:(k + 1) * 256]
            c1 = s1[k * 256:(k + 1) * 256]
            last = (k == nblk - 1)
            if pad_tracks or not last:
                fill0 = b'\x00' if version == 1 else bytes([revbits(0xF0)])
                c0 = c0.ljust(256, fill0)
                c1 = c1.ljust(256, fill0)
                tr += c0 + c1
            else:
                # unpadded: the final block of each side is short; side 1 data would be misplaced, so the
                # unpadded form is only generated for one-sided images
                tr += c0
        # lut_exact: the LUT carries the real amount of track data (2 x the longer side), as HxC writes it,
        # which need not be a multiple of 512; the data in the file is still stored in whole 512-byte blocks
        struct.pack_into('<HH', lut, 4 * t, block, 2 * n if lut_exact else len(tr))
        if len(tr) % 512:
            tr += b'\x00' * (512 - len(tr) % 512)
        body += tr
        block += len(tr) // 512
    if lut_block == 1 and first_track_block == 2:
        return bytes(hdr) + bytes(lut) + bytes(body)
    # general layout: the track list sits in block `lut_block`, track data starts in block `first_track_block` (> lut_block)
    out = bytearray(b'\xff' * (512 * first_track_block)) + body
    out[0:512] = hdr
    out[512 * lut_block:512 * lut_block + 512] = lut
    return bytes(out)


# ---------------------------------------------------------------- HxC MFM
def hxcmfm_image(sides, rpm=300, bitrate=250, iftype=4):
    """sides: list of lists of per-track byte strings packed MSB-first."""
    nsides = len(sides)
    nt = len(sides[0])
    hdr = bytearray(19)
    hdr[0:7] = b'HXCMFM\0'
    struct.pack_into('<H', hdr, 7, nt)
    hdr[9] = nsides
    struct.pack_into('<H', hdr, 10, rpm)
    struct.pack_into('<H', hdr, 12, bitrate)
    hdr[14] = iftype
    struct.pack_into('<I', hdr, 15, 19)
    nrec = nt * nsides
    tl = bytearray()
    data = bytearray()
    base = 19 + 11 * nrec
    base = (base + 511) // 512 * 512
    for t in range(nt):
        for s in range(nsides):
            d = sides[s][t]
            tl += struct.pack('<HBII', t, s, len(d), base + len(data))
            data += d
            if len(data) % 512:
                data += b'\x00' * (512 - len(data) % 512)
    out = bytes(hdr) + bytes(tl)
    out = out.ljust(base, b'\x00')
    return out + bytes(data)


# ---------------------------------------------------------------- whole discs
def skewed_order(n, rotation=0, step=1):
    """physical order of logical sector numbers for interleave `step` (coprime to n) and rotation."""
    order = [None] * n
    pos = 0
    for r in range(n):
        while order[pos % n] is not None:
            pos += 1
        order[pos % n] = r
        pos += step
    return order[rotation % n:] + order[:rotation % n]


def disc_to_tracks(surface, ntracks, spt, head, encoding, order=None, **kw):
    """surface: bytes of one side (ntracks*spt*256). Returns list of per-track (bits, spans, physical order)."""
    out = []
    for t in range(ntracks):
        ordr = order(t) if callable(order) else (order or list(range(spt)))
        secs = []
        for r in ordr:
            o = (t * spt + r) * 256
            secs.append((t, head, r, surface[o:o + 256].ljust(256, b'\0')))
        if encoding == 'FM':
            bits, spans = fm_track(secs, **kw)
        else:
            bits, spans = mfm_track(secs, **kw)
        out.append((bits, spans, ordr))
    return out


def hfe_from_surfaces(surfaces, ntracks, spt, encoding, version=1, order=None, pad_tracks=True, lut_exact=False, lut_block=1, first_track_block=2, **kw):
    sides = []
    for head, surf in enumerate(surfaces):
        trs = disc_to_tracks(surf, ntracks, spt, head, encoding, order, **kw)
        if encoding == 'FM':
            sides.append([pack_lsb_first(fm_to_hfe_cells(b)) for b, _, _ in trs])
        else:
            sides.append([pack_lsb_first(b) for b, _, _ in trs])
    return hfe_image(sides, encoding, version, pad_tracks, lut_exact=lut_exact, lut_block=lut_block, first_track_block=first_track_block)


def hxcmfm_from_surfaces(surfaces, ntracks, spt, order=None, **kw):
    sides = []
    for head, surf in enumerate(surfaces):
        trs = disc_to_tracks(surf, ntracks, spt, head, 'MFM', order, **kw)
        sides.append([pack_msb_first(b) for b, _, _ in trs])
    return hxcmfm_image(sides)
