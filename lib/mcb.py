"""Client for the in-process BASIC executor mc/mcb.c (seam A for basic/)."""
import struct, subprocess, os
from . import build, run


def pack(records):
    """records: [(dialect, listo, [file bytes, ...])]"""
    out = bytearray()
    for dialect, listo, files in records:
        nm = dialect.encode()
        out += bytes([len(nm)]) + nm + bytes([listo, len(files)])
        for f in files:
            out += struct.pack('<I', len(f)) + f
    return bytes(out)


def parse(data, records):
    """-> list (per record) of list (per file) of (ret, stdout, stderr_len, stderr_head); truncated where
    the process died."""
    res = []
    i = 0
    n = len(data)
    for dialect, listo, files in records:
        cur = []
        for f in files:
            if i + 5 > n:
                res.append(cur)
                return res, False
            ret = data[i]
            ol = struct.unpack_from('<I', data, i + 1)[0]
            if i + 5 + ol + 4 > n:
                res.append(cur)
                return res, False
            out = data[i + 5:i + 5 + ol]
            j = i + 5 + ol
            el = struct.unpack_from('<I', data, j)[0]
            es = min(el, 200)
            if j + 4 + es > n:
                res.append(cur)
                return res, False
            cur.append((ret, out, el, data[j + 4:j + 4 + es]))
            i = j + 4 + es
        res.append(cur)
    return res, True


def execute(variant, records, timeout=120):
    """Run all records in ONE process.  Returns (results, complete, proc_result)."""
    r = run.run([build.exe(variant, 'mcb')], stdin=pack(records), timeout=timeout)
    results, complete = parse(r.out, records)
    if r.status() != 'exit0':
        complete = False
    return results, complete, r


import re


def san_kind(stderr):
    """Classify a sanitizer / abort report: (kind, top frame in repo code)."""
    t = stderr.decode('latin-1', 'replace')
    kind = None
    m = re.search(r'ERROR: (Address|Memory|Leak)Sanitizer: ([\w-]+)', t)
    if m:
        kind = m.group(1)[0].lower() + 'san:' + m.group(2)
    else:
        m = re.search(r'runtime error: ([^\n]{0,60})', t)
        if m:
            kind = 'ubsan:' + re.sub(r'[^a-z ]', '', m.group(1).lower()).strip().replace(' ', '-')[:40]
        elif 'Assertion' in t and 'failed' in t:
            m = re.search(r"Assertion [`'](.{0,60}?)' failed", t)
            kind = 'assert:' + (m.group(1) if m else '?')
        elif 'terminate called' in t:
            m = re.search(r"terminate called after throwing an instance of '([^']+)'", t)
            kind = 'terminate:' + (m.group(1) if m else '?')
        elif 'glibcxx' in t.lower() or '__glibcxx_assert' in t or 'Assertion' in t:
            kind = 'glibcxx-assert'
    frame = None
    for m in re.finditer(r'#\d+ 0x[0-9a-f]+ in (.+?) (/[^\s:]+):(\d+)', t):
        path = m.group(2)
        if '/dfs/' in path or '/basic/' in path:
            fn = m.group(1).replace('(anonymous namespace)::', '')
            fn = re.sub(r'\(.*$', '', fn)
            fn = re.sub(r'<.*$', '', fn).split('::')[-1].strip()
            frame = '%s@%s' % (fn, os.path.basename(path))
            break
    return kind, frame


def run_all(variant, records, timeout=300):
    """Run records (each its own history of files) in as few processes as possible.
    Yields (index, record, results|None, crash|None) ; crash = (status, kind, frame, stderr_head)."""
    i = 0
    n = len(records)
    while i < n:
        chunk = records[i:]
        res, complete, r = execute(variant, chunk, timeout)
        done = len(res)
        # a record is complete only if all its files reported
        k = 0
        for k in range(done):
            rec = chunk[k]
            if len(res[k]) == len(rec[2]):
                yield (i + k, rec, res[k], None)
            else:
                break
        else:
            k = done
        if complete and done == len(chunk):
            return
        # record k of the chunk did not complete: crash / timeout
        if k >= len(chunk):
            return
        kind, frame = san_kind(r.err)
        yield (i + k, chunk[k], res[k] if k < done else [], (r.status(), kind, frame, r.err[-1500:]))
        i = i + k + 1
