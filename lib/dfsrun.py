"""Whole-program seam (B): run the real dfs / bbcbasic_to_text binaries."""
import os
from . import build, run


def dfs(variant, args, cwd, timeout=20.0, env=None, stdin=None):
    return run.run([build.exe(variant, 'dfs')] + list(args), cwd=cwd, timeout=timeout, env=env, stdin=stdin)


def basic(variant, args, cwd=None, timeout=20.0, env=None, stdin=None):
    return run.run([build.exe(variant, 'bbcbasic_to_text')] + list(args), cwd=cwd, timeout=timeout, env=env,
                   stdin=stdin)


def write(d, name, data):
    p = os.path.join(d, name)
    with open(p, 'wb') as f:
        f.write(data)
    return p


def read_tree(d):
    """{relative path: bytes} for all regular files under d."""
    out = {}
    for root, dirs, files in os.walk(d):
        for fn in files:
            p = os.path.join(root, fn)
            out[os.path.relpath(p, d)] = open(p, 'rb').read()
    return out
