"""Process execution helpers: deterministic environment, scratch dirs, parallel map."""
import os, sys, subprocess, shutil, tempfile, atexit, multiprocessing, time, signal, resource

VERIF = os.path.dirname(os.path.dirname(os.path.abspath(__file__)))
RUNNER = os.path.join(VERIF, 'build', 'runner')

BASE_ENV = {'LC_ALL': 'C', 'PATH': '/usr/bin:/bin', 'TZ': 'UTC',
            'ASAN_OPTIONS': 'detect_leaks=0:abort_on_error=0:exitcode=99:allocator_may_return_null=1:max_allocation_size_mb=2048',
            'UBSAN_OPTIONS': 'print_stacktrace=1:halt_on_error=1:exitcode=98',
            'MSAN_OPTIONS': 'exitcode=97'}

_scratch = None


def scratch():
    """Private scratch directory for this process (under /dev/shm).  The first process of a check creates a root
    directory and removes it at exit; pool workers (which are terminated without running atexit) make theirs inside it."""
    global _scratch
    if _scratch is None or _scratch[0] != os.getpid():
        root = os.environ.get('VERIF_SCRATCH_ROOT')
        if not root or not os.path.isdir(root):
            root = tempfile.mkdtemp(prefix='verif.%d.' % os.getpid(), dir='/dev/shm')
            os.environ['VERIF_SCRATCH_ROOT'] = root
            atexit.register(shutil.rmtree, root, True)
            _scratch = (os.getpid(), root)
            return root
        d = tempfile.mkdtemp(prefix='p%d.' % os.getpid(), dir=root)
        _scratch = (os.getpid(), d)
        atexit.register(shutil.rmtree, d, True)
    return _scratch[1]


def fresh_dir(name='w'):
    d = os.path.join(scratch(), name)
    shutil.rmtree(d, ignore_errors=True)
    os.makedirs(d)
    return d


class Result:
    __slots__ = ('exit', 'sig', 'timeout', 'out', 'err', 'maxrss_kb', 'wall_ms')

    def __init__(self, exit, sig, timeout, out, err, maxrss_kb=0, wall_ms=0):
        self.exit, self.sig, self.timeout, self.out, self.err = exit, sig, timeout, out, err
        self.maxrss_kb, self.wall_ms = maxrss_kb, wall_ms

    def status(self):
        if self.timeout:
            return 'timeout'
        if self.sig:
            return 'sig%d' % self.sig
        return 'exit%d' % self.exit

    def brief(self):
        return {'status': self.status(), 'stdout_len': len(self.out),
                'stderr': self.err[:300].decode('latin-1')}


def run(argv, stdin=None, cwd=None, env=None, timeout=20.0, stdout=None):
    """Simple run: returns Result.  stdin is bytes or None.  stdout may be a file object."""
    e = dict(BASE_ENV)
    if env:
        e.update(env)
    try:
        p = subprocess.run(argv, input=stdin if stdin is not None else None,
                           stdin=subprocess.DEVNULL if stdin is None else None,
                           stdout=stdout if stdout is not None else subprocess.PIPE,
                           stderr=subprocess.PIPE, cwd=cwd, env=e, timeout=timeout)
    except subprocess.TimeoutExpired as t:
        return Result(-1, 0, True, t.stdout or b'', t.stderr or b'')
    rc = p.returncode
    return Result(rc if rc >= 0 else -1, -rc if rc < 0 else 0, False, p.stdout or b'', p.stderr)


def run_limited(argv, stdin=None, cwd=None, env=None, timeout=20.0, fsize=-1, as_mb=-1,
                sigpipe='d', stdout_path=None, stdout_fd=None):
    """Run through mc/runner: gives rusage, RLIMIT_FSIZE, SIGPIPE disposition.
    If stdout_path is given stdout goes to that (regular) file, opened O_WRONLY|O_CREAT|O_TRUNC."""
    e = dict(BASE_ENV)
    if env:
        e.update(env)
    r, w = os.pipe()
    cmd = [RUNNER, str(int(timeout * 1000)), str(fsize), str(as_mb), sigpipe, str(w), '--'] + list(argv)
    so = subprocess.PIPE
    f = None
    if stdout_path is not None:
        f = open(stdout_path, 'wb')
        so = f
    elif stdout_fd is not None:
        so = stdout_fd
    try:
        p = subprocess.Popen(cmd, stdin=subprocess.PIPE if stdin is not None else subprocess.DEVNULL,
                             stdout=so, stderr=subprocess.PIPE, cwd=cwd, env=e,
                             pass_fds=(w,))
    finally:
        os.close(w)
        if f:
            f.close()
    try:
        out, err = p.communicate(stdin, timeout=timeout + 30)
    except subprocess.TimeoutExpired:
        p.kill()
        out, err = p.communicate()
    line = b''
    while True:
        c = os.read(r, 4096)
        if not c:
            break
        line += c
    os.close(r)
    kv = dict(x.split('=') for x in line.decode().split()) if line else {}
    return Result(int(kv.get('exit', -1)), int(kv.get('sig', 0)), kv.get('timeout', '1') == '1',
                  out or b'', err or b'', int(kv.get('maxrss_kb', 0)), int(kv.get('wall_ms', 0)))


# ---------------------------------------------------------------- parallel map

def _init_worker():
    signal.signal(signal.SIGINT, signal.SIG_IGN)


_pool = None


def pool(n=None):
    global _pool
    if _pool is None:
        scratch()           # create the scratch root before forking, so that workers nest inside it
        n = n or int(os.environ.get('VERIF_JOBS', '16'))
        ctx = multiprocessing.get_context('fork')
        _pool = ctx.Pool(n, initializer=_init_worker)
        atexit.register(_close_pool)
    return _pool


def _kill_children_of(pids):
    """SIGKILL every process whose parent is one of `pids` (targets started by pool workers: a worker that is terminated at
    the tier deadline cannot reap a target that hangs, and a hung target would otherwise spin on after the check has exited)"""
    pids = set(pids)
    for ent in os.listdir('/proc'):
        if not ent.isdigit():
            continue
        try:
            with open('/proc/%s/stat' % ent) as f:
                st = f.read()
            ppid = int(st[st.rindex(')') + 2:].split()[1])
        except Exception:
            continue
        if ppid in pids:
            _kill_children_of([int(ent)])
            try:
                os.kill(int(ent), signal.SIGKILL)
            except OSError:
                pass


def _close_pool():
    global _pool
    if _pool is not None:
        try:
            _kill_children_of([p.pid for p in _pool._pool])
        except Exception:
            pass
        _pool.terminate()
        _pool.join()
        _pool = None


def _batch(args):
    fn, cases = args
    return [fn(c) for c in cases]


def _batches(fn, items, n):
    cur = []
    for x in items:
        cur.append(x)
        if len(cur) >= n:
            yield (fn, cur)
            cur = []
    if cur:
        yield (fn, cur)


def pmap(fn, items, chunksize=None, deadline=None):
    """Unordered parallel map over a list/iterator; yields results as they complete.
    fn must be a module-level function.  Stops yielding when deadline (time.time()) passes;
    the caller learns that from Deadline.hit."""
    p = pool()
    it = p.imap_unordered(_batch, _batches(fn, items, chunksize or 8))
    while True:
        try:
            if deadline is not None:
                left = deadline - time.time()
                if left <= 0:
                    Deadline.hit = True
                    reset_pool()
                    return
                rs = it.next(timeout=left)
            else:
                rs = it.next()
        except StopIteration:
            return
        except multiprocessing.TimeoutError:
            Deadline.hit = True
            reset_pool()
            return
        for r in rs:
            yield r


def reset_pool():
    _close_pool()


class Deadline:
    hit = False
