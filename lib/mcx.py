"""Client for the in-process dfs-library executor mc/mcx.cc (seam A)."""
import struct, subprocess
from . import build, run


def _s(b):
    return struct.pack('<I', len(b)) + b


def _vol(drive, sub=None):
    return struct.pack('<IB', drive, ord(sub) if sub else 0)


class Reader:
    def __init__(self, data):
        self.d, self.i = data, 0

    def u8(self):
        v = self.d[self.i]
        self.i += 1
        return v

    def u32(self):
        v = struct.unpack_from('<I', self.d, self.i)[0]
        self.i += 4
        return v

    def bytes(self, n):
        v = self.d[self.i:self.i + n]
        if len(v) != n:
            raise EOFError
        self.i += n
        return v

    def str(self):
        return self.bytes(self.u32())

    def vol(self):
        d = self.u32()
        s = self.u8()
        return (d, chr(s) if s else None)

    def eof(self):
        return self.i >= len(self.d)

    def sectors_full(self):
        n = self.u32()
        out = []
        for _ in range(n):
            c, h, r = self.u8(), self.u8(), self.u8()
            ln = self.u32()
            data = self.bytes(ln)
            crc = self.bytes(2)
            out.append(((c, h, r), data, crc))
        return out

    def sectors_compact(self):
        n = self.u32()
        out = []
        for _ in range(n):
            c, h, r = self.u8(), self.u8(), self.u8()
            flag = self.u8()
            if flag == 0:
                out.append(((c, h, r), None, None))
            else:
                ln = self.u32()
                data = self.bytes(ln)
                crc = self.bytes(2)
                out.append(((c, h, r), data, crc))
        return out


def call(variant, request, timeout=600):
    r = run.run([build.exe(variant, 'mcx')], stdin=request, timeout=timeout)
    return r


def pack_bits(bits):
    out = bytearray((len(bits) + 7) // 8)
    for i, b in enumerate(bits):
        if b:
            out[i >> 3] |= 1 << (i & 7)
    return bytes(out)


def req_decode(enc, bits):
    return b'D' + enc.encode() + struct.pack('<I', len(bits)) + pack_bits(bits)


def req_sweep(enc, kind, param, bits, lo=0, hi=0xFFFFFFFF):
    return b'W' + enc.encode() + struct.pack('<BIIII', kind, param, lo, hi, len(bits)) + pack_bits(bits)


def req_pairs(enc, bits, positions):
    return b'X' + enc.encode() + struct.pack('<I', len(bits)) + pack_bits(bits) + struct.pack('<I', len(positions)) + \
        b''.join(struct.pack('<I', p) for p in positions)


def req_afsp(drive, sub, dir, pattern, names):
    """names: [(drive, sub, dir char, name bytes)]"""
    out = b'A' + _vol(drive, sub) + dir.encode('latin-1') + _s(pattern)
    out += struct.pack('<I', len(names))
    for d, s, dr, nm in names:
        out += _vol(d, s) + dr.encode('latin-1') + _s(nm)
    return out


def req_parse(drive, sub, dir, name):
    return b'P' + _vol(drive, sub) + dir.encode('latin-1') + _s(name)


def req_alloc(steps):
    """steps: [(nsurf, policy 'F'|'P', formatted mask)]"""
    out = b'L' + struct.pack('<I', len(steps))
    for n, pol, mask in steps:
        out += struct.pack('<IBI', n, 1 if pol == 'F' else 2, mask)
    return out
